"""C20 On-demand sync: remote files stay remote until requested; unsync keeps remote."""
import random

from vlib import oracles as O
from vlib import sim as S
from vlib import workload as W
from vlib.shard import Acc

ex = S.ex
PROP = "C20"
META = {
    "level": "exploration",
    "claim": "Held on the executed runs: SmartCloudSync over mock providers is driven through sequences of remote creates / edits / deletes / renames (within and across folders) / mkdirs, local deletes of downloaded files, local creates / edits, requests and un-requests by path and by id, requests whose download fails at once (transient fault of the local create) followed by an un-request of the never-downloaded file, with auto-sync predicates {never, by extension, random table} and random engine-step interleavings; at every quiescent point the local tree equals the model (all folders mirrored; a remote-only file is present locally iff it was requested by path, id or predicate and not un-requested; local creations are on the remote side; requested files track remote edits and local edits reach the remote), un-requesting never touches the remote copy and first uploads a newer local edit, and the merged listing of every folder reports each local file as synced and each not-downloaded remote file as not synced.",
    "note": "Trusted: the sequential model of the statement (operations on one file never race with each other: the harness quiesces between two operations on the same file; operations on different files interleave freely with engine steps). Flavours: local path-id or id-style, remote id-style (as the suite pairs them).",
    "technique": "runtime monitoring: model-based comparison of trees and merged listings at quiescent points of generated on-demand histories",
    "plan": {"quick": {"shards": 16, "timeout": 600, "cases": 9000},
             "thorough": {"shards": 32, "timeout": 3000, "cases": 120000}},
    "rule": "case = 6-16 operations over 2 folders and fresh file names x predicate x flavour {oo, po} x step gaps; distinct = "
            "distinct op-kind sequence + predicate + flavour; non-trivial = >= 1 request or un-request and >= 1 engine write",
    "assumptions": ["the full listing model (local synced / remote-only not synced) is compared at quiescent points; between engine steps only the clause 'every file physically in the local folder is listed as synced' is checked"],
}

PRED = ("never", "ext", "table")


def predicate(kind, rng):
    if kind == "never":
        return None
    if kind == "ext":
        return lambda path: path.endswith(".txt")
    table = {}

    def f(path):
        k = path.rsplit("/", 1)[-1]
        if k not in table:
            table[k] = rng.random() < 0.3
        return table[k]
    return f


def run_case(seed, index, acc=None, count=True):
    rng = random.Random("%s:C20:%d" % (seed, index))
    flavour = ("oo", "po")[index % 2]
    pk = PRED[(index // 2) % 3]
    names = W.Names(rng)
    cont = W.Contents(rng)
    prng = random.Random(rng.getrandbits(32))
    pred = predicate(pk, prng)
    sim = S.Sim(flavour, smart=True, rng=random.Random(rng.getrandbits(32)))
    if pred is not None:
        sim.cs.register_auto_sync_callback(pred)
    probs = []
    kinds = []
    stats = {"requests": 0, "unrequests": 0, "listings": 0}
    # model: rel path -> dict(rdata, local(bool), ldata)
    files = {}
    folders = {""}
    dirty = set()           # files with an operation since the last quiescence (no second op before quiescence)
    seek25 = index % 8 == 7
    flags = {"k25": False}

    def engine_call(fn, *a):
        w = sim.world
        prev = w.ctx
        w.ctx = "engine"
        try:
            return fn(*a)
        finally:
            w.ctx = prev

    def wants(path):
        return pred is not None and bool(pred(sim.abspath(1, path)))

    def quiesce_and_check(final=False):
        try:
            sim.quiesce()
        except S.NotQuiescent as e:
            probs.append(("not_quiescent", str(e)))
            return
        dirty.clear()
        L, R = sim.tree(0), sim.tree(1)
        expR = {f: ("dir",) for f in folders if f}
        expL = dict(expR)
        for p, v in files.items():
            if v["rdata"] is not None:
                expR[p] = ("file", v["rdata"])
            if v["local"]:
                expL[p] = ("file", v["rdata"] if v["rdata"] is not None else v.get("ldata"))
        pr = O.exact_problems(R, expR, "remote_tree")
        pl = []
        for k in sorted(set(L) | set(expL)):
            a, b = L.get(k), expL.get(k)
            if a != b:
                if b is None and a is not None:
                    pl.append(("unrequested_remote_file_present_locally" if a[0] == "file" else "unexpected_local_folder", k, O.short(a)))
                elif a is None:
                    pl.append(("requested_or_local_object_missing_locally", k, "expected " + str(O.short(b))))
                else:
                    pl.append(("local_content_differs", k, O.short(a), "expected " + str(O.short(b))))
        probs.extend(pr[:2])
        probs.extend(pl[:2])
        # merged listings
        for d in sorted(folders):
            lp = sim.abspath(0, d) if d else sim.roots[0]
            try:
                listing = list(engine_call(lambda: list(sim.cs.smart_listdir_path(lp))))
            except ex.CloudException as e:
                probs.append(("listing_raised", d, type(e).__name__))
                continue
            stats["listings"] += 1
            got = {i.name: i for i in listing}
            for p, v in files.items():
                par, _, base = p.rpartition("/")
                if par != d:
                    continue
                if v["local"]:
                    if base not in got or not got[base].is_synced:
                        probs.append(("listing_reports_local_file_as_not_synced", p, base in got))
                elif v["rdata"] is not None:
                    if base in got and got[base].is_synced:
                        probs.append(("listing_reports_undownloaded_remote_file_as_synced", p))
                    if base not in got:
                        probs.append(("listing_misses_remote_file", p))

    def local_files_listed():
        """any time, quiet or not: every file that is physically in a local folder must be in that folder's merged listing,
        reported as synced (the statement's 'every local file')"""
        w = sim.world
        for d in sorted(folders):
            lp = sim.abspath(0, d) if d else sim.roots[0]
            prev = w.ctx
            w.ctx = "oracle"
            try:
                info = sim.providers[0].info_path(lp)
                if info is None:
                    continue
                from cloudsync.types import DIRECTORY
                here = [x.name for x in sim.providers[0].listdir(info.oid) if x.otype != DIRECTORY]
            finally:
                w.ctx = prev
            if not here:
                continue
            try:
                listing = list(engine_call(lambda: list(sim.cs.smart_listdir_path(lp))))
            except ex.CloudException as e:
                probs.append(("listing_raised", d, type(e).__name__))
                continue
            stats["listings_mid_run"] = stats.get("listings_mid_run", 0) + 1
            got = {i.name: i for i in listing}
            for n in here:
                if n not in got or not got[n].is_synced:
                    probs.append(("listing_does_not_report_a_local_file_as_synced", (d + "/" + n) if d else n, n in got, "mid-run"))
                    return

    try:
        for d in ("da", "db"):
            sim.user({"side": 1, "op": "mkdir", "path": d})
            folders.add(d)
        quiesce_and_check()
        nops = rng.randrange(6, 17)
        forced = ["rcreate", "request", "unrequest", "request", "rwrite", "lwrite", "rwrite"] if index % 5 == 4 else []
        nops += len(forced)
        for _ in range(nops):
            if probs:
                break
            k = rng.choice(("rcreate", "rcreate", "rwrite", "rdelete", "lcreate", "lwrite", "request", "request", "unrequest",
                            "rmkdir", "rrename", "ldelete", "reqfail"))
            if forced:
                k = forced.pop(0)       # every fifth case starts with a request -> un-request -> request cycle and edits
                quiesce_and_check()
                if probs:
                    break
                cands_remote = [p for p, v in files.items() if v["rdata"] is not None and p not in dirty]
            cands_remote = [p for p, v in files.items() if v["rdata"] is not None and p not in dirty]
            if k == "rcreate":
                d = rng.choice(sorted(folders))
                p = (d + "/" if d else "") + names.fresh("r")
                data = cont.fresh(1, rng.choice((12, 1500, 3000)))
                sim.user({"side": 1, "op": "create", "path": p, "data": data})
                files[p] = {"rdata": data, "local": wants(p), "req": wants(p)}
                dirty.add(p)
            elif k == "rmkdir":
                p = names.fresh("d")
                sim.user({"side": 1, "op": "mkdir", "path": p})
                folders.add(p)
            elif k == "rwrite" and cands_remote:
                rr = [x for x in cands_remote if files[x].get("rereq") and files[x]["local"]]
                p = rng.choice(rr) if rr and rng.random() < 0.7 else rng.choice(cands_remote)   # edits of re-requested files
                data = cont.fresh(1, 12)
                sim.user({"side": 1, "op": "write", "path": p, "data": data})
                files[p]["rdata"] = data
                dirty.add(p)
            elif k == "rdelete" and cands_remote:
                p = rng.choice(cands_remote)
                sim.user({"side": 1, "op": "delete", "path": p})
                files[p]["rdata"] = None
                files[p]["local"] = False
                dirty.add(p)
            elif k == "rrename" and cands_remote:
                # a remote rename (same folder or into another one): a downloaded file follows, a remote-only one stays
                # remote-only under its new name; whether the new name is wanted by the predicate is decided by the
                # name the file had when it was first seen unless it was requested (kept simple: only files whose old and
                # new name the predicate treats alike are renamed)
                # a file that was requested and un-requested again is renamed only in the seek cases (finding K25: its
                # entry is excluded from processing, a path-less rename event never refreshes the name the listing shows)
                cr = [x for x in cands_remote if seek25 or not files[x].get("unreq")]
                if not cr:
                    continue
                p = rng.choice(cr)
                if files[p].get("unreq"):
                    flags["k25"] = True
                d = rng.choice(sorted(folders)) if rng.random() < 0.5 else p.rpartition("/")[0]
                q = None
                for _try in range(6):
                    cand = (d + "/" if d else "") + names.fresh("m")
                    if wants(cand) == wants(p):
                        q = cand
                        break
                if q is None:
                    continue
                sim.user({"side": 1, "op": "rename", "path": p, "to": q})
                files[q] = files.pop(p)
                dirty.add(q)
            elif k == "ldelete":
                # only files the application requested: the statement promises two-way sync for those (what a plain local
                # delete of a never-requested, locally created file means in on-demand mode it does not say)
                c = [p for p, v in files.items() if v["local"] and v.get("req") and v["rdata"] is not None and p not in dirty]
                if not c:
                    continue
                quiesce_and_check()             # the file must really be there before the local user deletes it
                if probs:
                    break
                p = rng.choice(c)
                r = sim.user({"side": 0, "op": "delete", "path": p})
                if r.get("ok"):
                    # kept in sync in both directions: the deletion reaches the remote side
                    files[p]["rdata"] = None
                    files[p]["local"] = False
                    dirty.add(p)
            elif k == "lcreate":
                d = rng.choice(sorted(folders))
                p = (d + "/" if d else "") + names.fresh("l")
                data = cont.fresh(0, 12)
                r = sim.user({"side": 0, "op": "create", "path": p, "data": data})
                if r.get("ok"):
                    files[p] = {"rdata": data, "local": True, "req": False}
                    dirty.add(p)
            elif k == "lwrite":
                c = [p for p, v in files.items() if v["local"] and v["rdata"] is not None and p not in dirty]
                if not c:
                    continue
                quiesce_and_check()             # the file must really be there before the local user edits it
                if probs:
                    break
                p = rng.choice(c)
                data = cont.fresh(0, 12)
                r = sim.user({"side": 0, "op": "write", "path": p, "data": data})
                if r.get("ok"):
                    files[p]["rdata"] = data
                    dirty.add(p)
            elif k == "request":
                c = [p for p, v in files.items() if v["rdata"] is not None and not v["local"] and p not in dirty]
                if not c:
                    continue
                quiesce_and_check()             # the engine must know the remote file before it can be requested
                if probs:
                    break
                again = [x for x in c if files[x].get("unreq")]
                p = rng.choice(again) if again and rng.random() < 0.7 else rng.choice(c)     # request -> un-request -> request
                if files[p].get("unreq"):
                    files[p]["rereq"] = True
                    stats["rerequests"] = stats.get("rerequests", 0) + 1
                stats["requests"] += 1
                try:
                    if rng.random() < 0.5:
                        engine_call(sim.cs.smart_sync_path, sim.abspath(1, p), 1)
                    else:
                        info = sim.providers[1].info_path(sim.abspath(1, p))
                        engine_call(sim.cs.smart_sync_oid, info.oid)
                except ex.CloudException as e:
                    probs.append(("request_raised", p, type(e).__name__, str(e)[:80]))
                files[p]["local"] = True
                files[p]["req"] = True
                dirty.add(p)
            elif k == "reqfail":
                # a request whose download fails at once (transient fault of the local create), after which the application
                # gives the file up again: it was requested but never downloaded, and must stay remote-only
                c = [p for p, v in files.items() if v["rdata"] is not None and not v["local"] and p not in dirty and not wants(p)]
                if not c:
                    continue
                quiesce_and_check()
                if probs:
                    break
                p = rng.choice(c)
                info = sim.providers[1].info_path(sim.abspath(1, p))
                lp = sim.providers[0]
                hit = []

                def flaky(*a, **kw):
                    hit.append(1)
                    raise ex.CloudTemporaryError("injected: local create fails once")
                lp.create = flaky
                raised = False
                try:
                    engine_call(sim.cs.smart_sync_oid, info.oid)
                except ex.CloudException:
                    raised = True
                finally:
                    lp.__dict__.pop("create", None)
                if not hit or not raised or sim.providers[0].info_path(sim.abspath(0, p)) is not None:
                    # the fault did not take (nothing to give up): an ordinary request
                    files[p]["local"] = True
                    files[p]["req"] = True
                    dirty.add(p)
                    stats["requests"] += 1
                else:
                    stats["requests_failed_then_given_up"] = stats.get("requests_failed_then_given_up", 0) + 1
                    n0 = len(sim.world.calls)
                    try:
                        engine_call(sim.cs.smart_unsync_oid, info.oid)
                    except ex.CloudException as e:
                        probs.append(("unrequest_raised", p, type(e).__name__, str(e)[:80]))
                    for c2 in sim.world.calls[n0:]:
                        if c2["side"] == 1 and c2["op"] in ("delete", "rename") and c2.get("ok"):
                            probs.append(("unrequest_touched_the_remote_copy", O.brief_call(c2)))
                    files[p]["unreq"] = True
                    dirty.add(p)
            elif k == "unrequest":
                c = [p for p, v in files.items() if v["local"] and v.get("req") and v["rdata"] is not None and p not in dirty
                     and not wants(p)]
                if not c:
                    continue
                quiesce_and_check()
                if probs:
                    break
                p = rng.choice(c)
                # optionally a newer local edit that has not been uploaded yet
                if rng.random() < 0.4:
                    data = cont.fresh(0, 12)
                    r = sim.user({"side": 0, "op": "write", "path": p, "data": data})
                    if r.get("ok"):
                        files[p]["rdata"] = data
                        sim.step("E0")
                stats["unrequests"] += 1
                n0 = len(sim.world.calls)
                try:
                    if rng.random() < 0.5:
                        engine_call(sim.cs.smart_unsync_path, sim.abspath(1, p), 1)
                    else:
                        info = sim.providers[1].info_path(sim.abspath(1, p))
                        engine_call(sim.cs.smart_unsync_oid, info.oid)
                except ex.CloudException as e:
                    probs.append(("unrequest_raised", p, type(e).__name__, str(e)[:80]))
                for c2 in sim.world.calls[n0:]:
                    if c2["side"] == 1 and c2["op"] in ("delete", "rename") and c2.get("ok"):
                        probs.append(("unrequest_touched_the_remote_copy", O.brief_call(c2)))
                files[p]["local"] = False
                files[p]["req"] = False
                files[p]["unreq"] = True
                dirty.add(p)
            else:
                continue
            kinds.append(k)
            for _ in range(rng.randrange(0, 4)):
                sim.step(rng.choice(("E0", "E1", "S")))
                if rng.random() < 0.5:
                    local_files_listed()
                    if probs:
                        break
            if rng.random() < 0.35:
                quiesce_and_check()
        if not probs:
            quiesce_and_check(final=True)
        if count and acc is not None:
            acc.evaluations += 1
            acc.count("engine_steps", sim.steps)
            acc.count("requests", stats["requests"])
            acc.count("unrequests", stats["unrequests"])
            acc.count("requests_failed_then_given_up", stats.get("requests_failed_then_given_up", 0))
            acc.count("requests_of_files_un_requested_before", stats.get("rerequests", 0))
            acc.count("listings_checked", stats["listings"])
            acc.count("listings_checked_between_engine_steps", stats.get("listings_mid_run", 0))
            acc.add("predicates", pk)
            acc.add("flavours", flavour)
            writes = len(O.engine_writes(sim))
            acc.count("engine_writes", writes)
            if writes and (stats["requests"] or stats["unrequests"]):
                acc.sigs.add("%s:%s:%s" % (flavour, pk, ",".join(kinds)))
    except S.NotQuiescent as e:
        probs.append(("not_quiescent", str(e)))
    finally:
        sim.close()
    return probs, {"family": "SMART", "flavour": flavour, "predicate": pk, "ops": kinds, "index": index, "seed": seed,
                   "k25": flags["k25"]}


def shard(ctx, acc):
    plan = META["plan"][ctx.tier]
    for i in range(ctx.shard, plan["cases"], ctx.nshards):
        probs, brief = run_case(ctx.seed, i, acc)
        acc.sample(brief, cap=3)
        if probs:
            if brief.get("k25") and all(pp[0] in ("listing_misses_remote_file", "listing_reports_undownloaded_remote_file_as_synced")
                                        for pp in probs):
                acc.count("failures_attributed_K25")
                acc.known_hit("K25", brief)
            else:
                acc.violation(probs[0][0], probs[:4], brief)


def conclusive(acc, tier):
    out = []
    for k in ("requests", "unrequests", "listings_checked"):
        if not acc.counters.get(k):
            out.append("%s = 0" % k)
    return out


def replay(rep):
    c = rep.get("case") or {}
    hits = 0
    for k in range(3):
        probs, _ = run_case(c["seed"], c["index"], None, count=False)
        if probs:
            hits += 1
            if hits == 1:
                print(str(probs[:3])[:1200])
    print("reproduction rate %d/3" % hits)
    return 1 if hits else 0
