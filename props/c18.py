"""C18 Service loops: bounded geometric backoff, final stop, ordered notifications."""
import itertools
import random
import threading
import time

from vlib import load as _load

PROP = "C18"
META = {
    "level": "exploration",
    "engine": "component",
    "claim": "Held on the executed runs: (arithmetic) for every outcome script of length <= 5 (thorough: 7) over {ok, no-op, backoff request, Exception, BaseException, no-op-then-Exception, no-op-then-backoff} and random long scripts x parameter triples with 0 < min <= max, mult >= 1, the wait the loop requests after each call equals min(max, min*mult^(k-1)) after k failures since the last effective success, the nominal sleep after an effective success, unchanged after a no-op, and the loop calls the work function exactly once per script entry whatever it raises; (protocol, real threads) over randomised stop/wake/start timings hitting all loop phases no work call begins after stop() returned (or after wait() following a non-waiting stop), cleanup runs exactly once after a final stop and never after a non-final one, a finally stopped service refuses to start, stop_all signals every service before joining any; (notifications) with several producers and failing handlers the handler sees every notification exactly once in raise order; LongPollManager survives poll exceptions with backoff and its non-waiting stop unblocks a blocked consumer.",
    "note": "Trusted: the duration seam (cloudsync.runnable.threading replaced by a proxy whose Event.wait records the timeout and returns at once) for the arithmetic part; sequence counters, not wall-clock, decide the protocol part; a generous wall-clock watchdog only yields 'inconclusive'. Restarting a NotificationManager after a non-final stop is finding K8.",
    "technique": "runtime monitoring: requested-sleep trace checked against the backoff law (exhaustive scripts) + call-order history checks under real threads",
    "plan": {"quick": {"shards": 16, "timeout": 600, "maxlen": 5, "random": 2000, "races": 4000, "notif": 320, "lp": 64},
             "thorough": {"shards": 32, "timeout": 3000, "maxlen": 7, "random": 100000, "races": 40000, "notif": 3000, "lp": 300}},
    "rule": "arithmetic: every script up to the stated length x 4 parameter triples (split over shards) + random scripts of "
            "length 10-60 + 8 long failure runs (400-2400 consecutive failures, multipliers 1.9 to 1e300, int and float: "
            "mult^(k-1) beyond the cap and beyond a float; a loop that ends with an exception is a violation); protocol: one race = start a service, act from another thread (stop final/non-final x waiting/"
            "non-waiting, wake, start) at a random delay, check the call history; notifications: one round = 3 producers x "
            "20-60 notifications with random handler failures; distinct = distinct (script, triple) / (race kind, phase "
            "hit); non-trivial = script contains a failure / the race hit a recorded loop phase",
    "assumptions": ["CPython threads; phases observed by the service itself (in-do / sleeping / between)"],
}

OUTCOMES = ("ok", "noop", "backoff", "exc", "base", "noop+exc", "noop+backoff")
TRIPLES = ((0.01, 1.0, 2.0), (0.5, 0.5, 3.0), (0.1, 7.0, 1.0), (1.0, 100.0, 1.5))
NOMINAL = 0.123


class Boom(BaseException):
    pass


class FakeEvent:
    def __init__(self, log):
        self.log = log

    def wait(self, timeout=None):
        self.log.append(timeout)
        return False

    def set(self):
        pass

    def clear(self):
        pass

    def is_set(self):
        return False


class ThreadingProxy:
    def __init__(self, real, log):
        self._real = real
        self._log = log

    def Event(self):                    # noqa
        return FakeEvent(self._log)

    def __getattr__(self, k):
        return getattr(self._real, k)


LONG_RUNS = (
    (("exc",) * 1100, (0.001, 4.0, 2.0)),
    (("backoff",) * 1100, (0.001, 4.0, 2)),
    (("noop+exc",) * 1100 + ("ok",) + ("backoff",) * 3, (0.05, 50.0, 2.0)),
    (("exc", "backoff") * 1200, (1.0, 1000.0, 1.9)),
    (("exc",) * 20, (0.001, 10.0, 1e30)),
    (("backoff", "exc", "noop") * 8, (1.0, 1000.0, 1e300)),
    (("base",) * 6 + ("ok",) + ("exc",) * 6, (3.0, 3.0, 1e200)),
    (("exc",) * 400, (0.001, 1e12, 10)),
)


def arithmetic(script, triple):
    """returns problems for one script"""
    import cloudsync.runnable as RM
    waits = []
    real = RM.threading
    RM.threading = ThreadingProxy(real, waits)
    try:
        calls = []

        class Svc(RM.Runnable):
            min_backoff, max_backoff, mult_backoff = triple

            def do(self):
                o = script[len(calls)] if len(calls) < len(script) else "ok"
                calls.append(o)
                if o.startswith("noop"):
                    self.nothing_happened()
                if o.endswith("backoff"):
                    self.backoff()
                elif o.endswith("exc"):
                    raise ValueError("scripted")
                elif o == "base":
                    raise Boom("scripted")

        s = Svc()
        died = None
        try:
            s.run(until=lambda: len(calls) > len(script), sleep=NOMINAL)
        except BaseException as e:      # noqa  the loop keeps running whatever the work function raises
            died = e
    finally:
        RM.threading = real
    probs = []
    if died is not None:
        probs.append(("loop_ended_with_an_exception", type(died).__name__, str(died)[:120], len(calls), list(triple)))
        return probs
    if calls[:len(script)] != list(script) or len(calls) != len(script) + 1:
        probs.append(("loop_ended_or_skipped_calls", len(calls), len(script) + 1))
        return probs
    mn, mx, mult = triple
    b = 0.0
    k = 0
    for i, o in enumerate(script):
        if o in ("backoff", "exc", "base", "noop+exc", "noop+backoff"):     # a call that fails is a failure whatever it said before
            k += 1
            try:
                b = min(mx, mn * (mult ** (k - 1)))
            except OverflowError:       # the power alone is beyond a float: the law's value is the cap
                b = mx
        elif o == "ok":
            k = 0
            b = 0.0
        want = b if b > 0 else NOMINAL
        got = waits[i] if i < len(waits) else None
        if got is None or abs(got - want) > 1e-9 * max(1.0, want):
            probs.append(("wait_differs_from_law", i, o, got, want, list(script[:i + 1]), triple))
            break
    return probs


# ------------------------------------------------------------------------------------------------------- protocol
class Hist:
    def __init__(self):
        self.lock = threading.Lock()
        self.seq = 0
        self.ev = []

    def add(self, *what):
        with self.lock:
            self.seq += 1
            self.ev.append((self.seq,) + what)
            return self.seq


class Stretch:
    """sys.monitoring LINE callback on cloudsync/runnable.py: with probability q the executing thread pauses for a few
    hundred microseconds at a statement boundary.  CPython may preempt a thread at any such boundary, so this only makes
    rare interleavings (a stop() caught between two of its assignments, a loop caught between its two flag tests)
    frequent; it cannot create an impossible one."""
    TOOL = 3

    def __init__(self, q, seed):
        self.q, self.rng = q, random.Random(seed)
        self.lines = self.pauses = 0
        self.on = False

    def __enter__(self):
        import sys
        mon = getattr(sys, "monitoring", None)
        if mon is None:
            return self
        try:
            mon.use_tool_id(self.TOOL, "verif-stretch")
        except ValueError:
            pass
        target = _load.REPO + "/cloudsync/runnable.py"

        def cb(code, line):
            if code.co_filename != target:
                return mon.DISABLE
            self.lines += 1
            if self.rng.random() < self.q:
                self.pauses += 1
                time.sleep(self.rng.choice((0, 0.0001, 0.0004)))
            return None
        mon.register_callback(self.TOOL, mon.events.LINE, cb)
        mon.set_events(self.TOOL, mon.events.LINE)
        self.on = True
        return self

    def __exit__(self, *a):
        import sys
        mon = getattr(sys, "monitoring", None)
        if mon is None or not self.on:
            return
        mon.set_events(self.TOOL, 0)
        mon.register_callback(self.TOOL, mon.events.LINE, None)
        try:
            mon.free_tool_id(self.TOOL)
        except Exception:       # noqa
            pass
        self.on = False


def race(rng, kind):
    """one start/stop race; returns (problems, phase_hit)"""
    import cloudsync.runnable as RM
    h = Hist()
    phase = ["idle"]

    class Svc(RM.Runnable):
        def __init__(self, name):
            self.service_name = name
            self.dur = rng.choice((0, 0, 0.0005, 0.002))

        def do(self):
            phase[0] = "in-do"
            h.add("do", self.service_name)
            if self.dur:
                time.sleep(self.dur)
            phase[0] = "between"

        def done(self):
            h.add("done", self.service_name)

        def interruptable_sleep(self, secs):
            phase[0] = "sleeping"
            RM.Runnable.interruptable_sleep(self, secs)
            phase[0] = "between"

    probs = []
    hit = None
    if kind == "stop_all":
        svcs = [Svc("s%d" % i) for i in range(3)]
        order = []
        for s in svcs:
            orig_stop, orig_wait = s.stop, s.wait

            def stop(forever=True, wait=True, _o=orig_stop, _s=s):
                order.append(("stop", _s.service_name, wait))
                return _o(forever=forever, wait=wait)

            def wait(timeout=None, _o=orig_wait, _s=s):
                order.append(("wait", _s.service_name))
                return _o(timeout=timeout)
            s.stop, s.wait = stop, wait
            s.start(sleep=rng.choice((0.0005, 0.002)))
        time.sleep(rng.random() * 0.004)
        try:
            RM.Runnable.stop_all(svcs, forever=True, wait=True)
        except Exception as e:          # noqa
            probs.append(("stop_all_raised", repr(e)))
            for s in svcs:
                try:
                    RM.Runnable.stop(s, forever=True, wait=False)
                except Exception:       # noqa
                    pass
            return probs, "stop_all"
        mark = h.add("returned")
        time.sleep(0.003)
        first_wait = min([i for i, o in enumerate(order) if o[0] == "wait"] or [len(order)])
        stops = [i for i, o in enumerate(order) if o[0] == "stop"]
        if len(stops) != 3 or max(stops) > first_wait or any(o[0] == "stop" and o[2] for o in order):
            probs.append(("stop_all_joined_before_all_signalled", order))
        late = [e for e in h.ev if e[0] > mark and e[1] == "do"]
        if late:
            probs.append(("work_called_after_stop_all_returned", late[:2]))
        dones = [e for e in h.ev if e[1] == "done"]
        if len(dones) != 3:
            probs.append(("cleanup_count_after_stop_all", len(dones)))
        return probs, "stop_all"
    s = Svc("svc")
    forever = kind in ("final_wait", "final_nowait")
    waiting = kind in ("final_wait", "nonfinal_wait")
    s.start(sleep=rng.choice((0.0002, 0.001, 0.003)))
    # half of the races act at once (the service thread may not even have entered its loop yet)
    if rng.random() < 0.5:
        time.sleep(rng.random() * 0.004)
    if rng.random() < 0.3:
        s.wake()
    hit = phase[0]
    # the stop is always *signalled* without waiting first, so that a loop that ignores it is observed by counting
    # work calls (bounded progress: the loop must end within 300 further calls) instead of hanging the harness
    n_at_stop = len(h.ev)
    try:
        s.stop(forever=forever, wait=False)
    except Exception as e:              # noqa
        probs.append(("stop_raised", kind, repr(e)))
        return probs, hit
    t0 = time.time()
    ignored = False
    while True:
        try:
            s.wait(timeout=0.02)
            break
        except TimeoutError:
            calls_since = len([e for e in h.ev[n_at_stop:] if e[1] == "do"])
            if calls_since > 300:
                ignored = True
                break
            if time.time() - t0 > 10:
                probs.append(("INCONCLUSIVE service thread still alive 10 s after stop with %d calls since" % calls_since,))
                break
    if ignored:
        probs.append(("stop_request_ignored_work_function_keeps_running", kind, "phase at stop: %s" % hit))
        s.stop(forever=True, wait=False)
        try:
            s.wait(timeout=5)
        except TimeoutError:
            pass
        return probs, hit
    if waiting:
        s.stop(forever=forever, wait=True)      # the waiting form must return at once on an already stopped service
    mark = h.add("returned")
    time.sleep(0.002)
    late = [e for e in h.ev if e[0] > mark and e[1] == "do"]
    if late:
        probs.append(("work_called_after_stop_returned", kind, late[:2]))
    dones = len([e for e in h.ev if e[1] == "done"])
    if dones != (1 if forever else 0):
        probs.append(("cleanup_count", kind, dones))
    if forever:
        try:
            s.start()
            probs.append(("finally_stopped_service_started_again", kind))
            s.stop()
        except RuntimeError:
            pass
    else:
        n0 = len([e for e in h.ev if e[1] == "do"])
        s.start(sleep=0.0005)
        t0 = time.time()
        while len([e for e in h.ev if e[1] == "do"]) <= n0 and time.time() - t0 < 5:
            time.sleep(0.0005)
        if len([e for e in h.ev if e[1] == "do"]) <= n0:
            probs.append(("INCONCLUSIVE restart after non-final stop made no call within 5s",))
        s.stop(forever=True, wait=True)
        if len([e for e in h.ev if e[1] == "done"]) != 1:
            probs.append(("cleanup_count_after_restart_and_final_stop", len([e for e in h.ev if e[1] == "done"])))
    return probs, hit


def notification_round(rng):
    from cloudsync.notification import NotificationManager, Notification, NotificationType, SourceEnum
    seen = []
    fail = set()
    active = [0]
    overlap = [0]

    def handler(n):
        active[0] += 1
        if active[0] > 1:
            overlap[0] += 1
        try:
            seen.append(n.path)
            if n.path in fail:
                raise RuntimeError("handler failure")
        finally:
            active[0] -= 1

    done_calls = [0]

    class NM(NotificationManager):
        def done(self):
            done_calls[0] += 1
            NotificationManager.done(self)

    nm = NM(handler)
    nm.start()
    lock = threading.Lock()
    raised = []
    total = rng.randrange(20, 61)
    per = [total // 3, total // 3, total - 2 * (total // 3)]
    for i in range(total):
        if rng.random() < 0.2:
            fail.add("n%d" % i)

    def producer(k):
        r = random.Random(k)
        for _ in range(per[k]):
            with lock:
                name = "n%d" % len(raised)
                raised.append(name)
                nm.notify(Notification(SourceEnum.SYNC, NotificationType.TEMPORARY_ERROR, name))
            if r.random() < 0.3:
                time.sleep(0.0002)
    ths = [threading.Thread(target=producer, args=(k,)) for k in range(3)]
    for t in ths:
        t.start()
    for t in ths:
        t.join()
    t0 = time.time()
    while len(seen) < len(raised) and time.time() - t0 < 10:
        time.sleep(0.001)
    probs = []
    if len(seen) < len(raised) and seen == raised[:len(seen)]:
        # delivery stalled: decide by what a failing handler did
        last = seen[-1] if seen else None
        if last in fail:
            probs.append(("handler_failure_stopped_later_deliveries", last, len(seen), len(raised)))
        else:
            probs.append(("INCONCLUSIVE notifications not all delivered within 10s", len(seen), len(raised)))
    elif seen != raised:
        probs.append(("handler_sequence_differs_from_raise_sequence", seen[:6], raised[:6]))
    if overlap[0]:
        probs.append(("handler_called_concurrently", overlap[0]))
    # the stop protocol on the real service (not a toy Runnable): a final stop of the - now idle or busy - notification loop
    # runs its cleanup exactly once and the service refuses to start again
    waiting = rng.random() < 0.5
    if rng.random() < 0.5:
        nm.notify(Notification(SourceEnum.SYNC, NotificationType.TEMPORARY_ERROR, "late"))      # stop while (probably) busy
    try:
        if waiting:
            nm.stop(forever=True, wait=True)
        else:
            nm.stop(forever=True, wait=False)
            nm.wait(timeout=10)
    except TimeoutError:
        probs.append(("INCONCLUSIVE notification service still running 10 s after a final stop",))
        return probs, len(raised), len(fail)
    except Exception as e:      # noqa
        probs.append(("final_stop_of_notification_service_raised", repr(e)[:120]))
        return probs, len(raised), len(fail)
    if done_calls[0] != 1:
        probs.append(("notification_service_cleanup_count_after_final_stop", done_calls[0], "waiting" if waiting else "non-waiting"))
    try:
        nm.start()
        probs.append(("finally_stopped_notification_service_started_again",))
        nm.stop(forever=True)
    except RuntimeError:
        pass
    return probs, len(raised), len(fail)


def k8_probe():
    """finding K8: a non-final stop issued while the handler is busy leaves the None marker queued; the restarted
    loop consumes it and stops itself"""
    from cloudsync.notification import NotificationManager, Notification, NotificationType, SourceEnum
    seen = []
    gate = threading.Event()
    entered = threading.Event()

    def handler(n):
        seen.append(n.path)
        if n.path == "a":
            entered.set()
            gate.wait(5)

    nm = NotificationManager(handler)
    nm.start()
    nm.notify(Notification(SourceEnum.SYNC, NotificationType.STARTED, "a"))
    if not entered.wait(5):
        nm.stop()
        return False
    nm.stop(forever=False, wait=False)
    gate.set()
    nm.wait()
    nm.start()
    time.sleep(0.05)
    nm.notify(Notification(SourceEnum.SYNC, NotificationType.STARTED, "b"))
    t0 = time.time()
    while len(seen) < 2 and time.time() - t0 < 1.0:
        time.sleep(0.002)
    lost = "b" not in seen
    nm.stop()
    return lost


def longpoll_round(rng):
    from cloudsync.long_poll import LongPollManager
    from cloudsync.event import Event
    from cloudsync.types import FILE
    import cloudsync.runnable as RM
    probs = []
    items = [[Event(FILE, "o%d" % i, None, None, True) for i in range(rng.randrange(1, 4))]]
    polls = {"long": 0, "short": 0}
    fail_first = rng.randrange(0, 4)

    def short_poll():
        polls["short"] += 1
        while items:
            for e in items.pop():
                yield e

    def long_poll(timeout):
        polls["long"] += 1
        if polls["long"] <= fail_first:
            raise RuntimeError("poll failure")
        time.sleep(0.001)
        return True

    lp = LongPollManager(short_poll, long_poll, short_poll_only=False, uses_cursor=rng.random() < 0.5)
    lp.long_poll_timeout = 0.05
    lp.min_backoff, lp.max_backoff = 0.001, 0.004
    lp.start(sleep=0.001)
    got = []
    done = threading.Event()

    def consumer():
        for e in lp():
            got.append(e.oid)
        done.set()
    th = threading.Thread(target=consumer, daemon=True)
    th.start()
    if not done.wait(10):
        probs.append(("INCONCLUSIVE consumer got no events within 10s (polls %s)" % polls,))
    elif not got:
        probs.append(("long_poll_manager_lost_events_after_poll_failures", polls))
    if not lp.started:
        probs.append(("long_poll_loop_ended_after_poll_exception", polls))
    # a consumer blocked with nothing pending must be released by the non-waiting stop
    done2 = threading.Event()

    def consumer2():
        list(lp())
        done2.set()
    time.sleep(0.003)
    th2 = threading.Thread(target=consumer2, daemon=True)
    th2.start()
    time.sleep(0.002)
    lp.stop()
    if not done2.wait(10):
        probs.append(("blocked_consumer_not_released_by_stop",))
    try:
        lp.wait(timeout=10)
    except TimeoutError:
        probs.append(("INCONCLUSIVE long poll thread still alive 10s after stop",))
    return probs, polls["long"], fail_first


def shard(ctx, acc):
    _load.load()
    plan = META["plan"][ctx.tier]
    idx = 0
    for n in range(1, plan["maxlen"] + 1):
        for script in itertools.product(OUTCOMES, repeat=n):
            idx += 1
            if idx % ctx.nshards != ctx.shard:
                continue
            for ti, tr in enumerate(TRIPLES):
                probs = arithmetic(script, tr)
                acc.evaluations += 1
                acc.count("scripts_exhaustive")
                acc.count("work_calls", len(script))
                if any(o != "ok" and o != "noop" for o in script):
                    acc.sigs.add("a:%d:%d" % (idx, ti))
                if probs:
                    acc.violation(probs[0][0], probs[:2], {"family": "ARITH", "script": list(script), "triple": list(tr)})
    for j in range(ctx.shard, plan["random"], ctx.nshards):
        rng = random.Random("%s:c18a:%d" % (ctx.seed, j))
        script = tuple(rng.choice(OUTCOMES) for _ in range(rng.randrange(10, 61)))
        mn = rng.choice((0.001, 0.05, 1.0, 3.0))
        tr = (mn, mn * rng.choice((1, 2, 10, 1000)), rng.choice((1.0, 1.1, 2.0, 5.0)))
        probs = arithmetic(script, tr)
        acc.evaluations += 1
        acc.count("scripts_random")
        acc.sigs.add("ar:%d" % j)
        if j < 2:
            acc.sample({"script": list(script[:20]), "min_max_mult": list(tr)})
        if probs:
            acc.violation(probs[0][0], probs[:2], {"family": "ARITH", "script": list(script), "triple": list(tr)})
    # long failure runs and huge multipliers (mult^(k-1) far beyond the cap, beyond a float): the wait stays at the cap
    # and the loop keeps calling the work function
    for j, (script, tr) in enumerate(LONG_RUNS):
        if j % ctx.nshards != ctx.shard:
            continue
        probs = arithmetic(script, tr)
        acc.evaluations += 1
        acc.count("scripts_long_failure_runs")
        acc.count("work_calls", len(script))
        acc.sigs.add("al:%d" % j)
        if probs:
            acc.violation(probs[0][0], probs[:2], {"family": "ARITH", "script": list(script), "triple": list(tr)})
    kinds = ("final_wait", "final_nowait", "nonfinal_wait", "nonfinal_nowait", "stop_all")
    for j in range(ctx.shard, plan["races"], ctx.nshards):
        rng = random.Random("%s:c18r:%d" % (ctx.seed, j))
        kind = kinds[(j // ctx.nshards) % len(kinds)]
        if rng.random() < 0.5:
            with Stretch(0.15, rng.getrandbits(32)) as st:
                probs, hit = race(rng, kind)
            acc.count("races_stretched")
            acc.count("stretch_lines_seen", st.lines)
            acc.count("stretch_pauses", st.pauses)
        else:
            probs, hit = race(rng, kind)
        acc.evaluations += 1
        acc.count("races")
        acc.add("phases_hit", "%s@%s" % (kind, hit))
        acc.sigs.add("r:%s:%s" % (kind, hit))
        inc = [p for p in probs if str(p[0]).startswith("INCONCLUSIVE")]
        for p in inc:
            acc.inconclusive.append(p[0])
        probs = [p for p in probs if p not in inc]
        if probs:
            acc.violation(probs[0][0], probs[:2], {"family": "RACE", "kind": kind, "j": j})
    for j in range(ctx.shard, plan["notif"], ctx.nshards):
        rng = random.Random("%s:c18n:%d" % (ctx.seed, j))
        probs, n, nf = notification_round(rng)
        acc.evaluations += 1
        acc.count("notification_rounds")
        acc.count("notifications", n)
        acc.count("handler_failures", nf)
        acc.sigs.add("n:%d" % j)
        inc = [p for p in probs if str(p[0]).startswith("INCONCLUSIVE")]
        for p in inc:
            acc.inconclusive.append(str(p))
        probs = [p for p in probs if p not in inc]
        if probs:
            acc.violation(probs[0][0], probs[:2], {"family": "NOTIF", "j": j})
    for j in range(ctx.shard, plan["lp"], ctx.nshards):
        rng = random.Random("%s:c18l:%d" % (ctx.seed, j))
        probs, nlong, ff = longpoll_round(rng)
        acc.evaluations += 1
        acc.count("longpoll_rounds")
        acc.count("longpoll_failures_scripted", ff)
        acc.sigs.add("l:%d" % j)
        inc = [p for p in probs if str(p[0]).startswith("INCONCLUSIVE")]
        for p in inc:
            acc.inconclusive.append(str(p[0]))
        probs = [p for p in probs if p not in inc]
        if probs:
            acc.violation(probs[0][0], probs[:2], {"family": "LONGPOLL", "j": j})
    if ctx.shard == 0:
        from vlib import probes as P
        P.run_fixed_demos(PROP, acc)
    if ctx.shard == 0 and k8_probe():
        acc.known_hit("K8", {"steps": ["start", "notify a", "stop(forever=False)", "start", "notify b", "b never delivered"]})


def conclusive(acc, tier):
    out = []
    for k in ("scripts_exhaustive", "races", "notification_rounds", "longpoll_rounds"):
        if not acc.counters.get(k):
            out.append("%s = 0" % k)
    ph = acc.sets.get("phases_hit", ())
    for want in ("in-do", "sleeping"):
        if not any(want in p for p in ph):
            out.append("no stop race hit the '%s' phase" % want)
    return out


def replay(rep):
    _load.load()
    c = rep.get("case") or {}
    if c.get("family") == "ARITH":
        p = arithmetic(tuple(c["script"]), tuple(c["triple"]))
        print(p[:2])
        return 1 if p else 0
    print("threaded rounds are re-run with the same VERIF_SEED:", c)
    return 2
