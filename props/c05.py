"""C05 Conflict-resolution contract: both sides end up with the resolver's answer."""
import io
import random

from vlib import oracles as O
from vlib import sim as S
from vlib import workload as W
from vlib.shard import Acc

ex = S.ex
PROP = "C05"
META = {
    "level": "exploration",
    "claim": "Held on the executed runs: for every cell of (conflict shape create/create | edit/edit) x (content pair: equal, empty vs non-empty, small, 1-2 KiB, >2 KiB, large) x (resolver behaviour: pick local|remote x keep, merged data without keep, None, exception, one temporary error then None, non-tuple, 3-tuple, non-file first element) x provider flavour (with equal and with different hash algorithms on the two sides), under many random interleavings of engine steps after the conflict exists: the resolver is called exactly once with two handles whose side labels and bytes are the two sides' actual contents (never when the contents are equal), the final trees are the contractual outcome written down from the statement, and all interleavings of a cell end in the same outcome.",
    "note": "Trusted: the expected-outcome table in this file (from the statement, not from the code). The answer (new data, keep=True) is finding K4 and is only probed. Renames during an unresolved conflict are hazard HF.",
    "technique": "runtime monitoring: resolver tap (calls, side labels, bytes read) + expected-outcome table + outcome-set-per-cell check across interleavings",
    "plan": {"quick": {"shards": 16, "timeout": 600, "schedules": 24},
             "thorough": {"shards": 32, "timeout": 3000, "schedules": 150}},
    "rule": "evaluation = one run of one cell under one random schedule; cells enumerated completely (2 shapes x 7 content "
            "pairs x 11 behaviours x 5 flavours), schedules drawn per (seed, cell, k); distinct = distinct (cell, schedule "
            "step string); non-trivial = the contents differ (the resolver must be consulted)",
    "assumptions": ["default '.conflicted' naming of the engine is used to recognise kept losers"],
}

SHAPES = ("create", "edit")
PAIRS = ("equal", "empty_local", "empty_remote", "small", "kb1_5", "kb3", "large")
BEHAV = ("local_keep", "local_nokeep", "remote_keep", "remote_nokeep", "merge_nokeep", "none", "raise", "temp_then_none",
         "nontuple", "tuple3", "nonfile")
FLAVS = ("oo", "pp", "po", "op", "of")


def contents(pair, rng):
    tag = b"%06d" % rng.randrange(10 ** 6)
    if pair == "equal":
        v = b"same:" + tag
        return v, v
    if pair == "empty_local":
        return b"", b"R:" + tag
    if pair == "empty_remote":
        return b"L:" + tag, b""
    size = {"small": 16, "kb1_5": 1500, "kb3": 3000, "large": 70000}[pair]
    return (b"L:" + tag + b"l" * size)[:size], (b"R:" + tag + b"r" * size)[:size]


class ResolverTap:
    def __init__(self, behaviour, merged, rewind=True):
        self.behaviour = behaviour
        self.merged = merged
        self.rewind = rewind            # False: a resolver that reads both versions and hands one back as it is
        self.calls = []
        self.n = 0

    def __call__(self, f1, f2):
        self.n += 1
        rec = {}
        for f in (f1, f2):
            f.seek(0)
            rec[f.side] = {"bytes": f.read(), "path": f.path}
            if self.rewind:
                f.seek(0)
        self.calls.append(rec)
        by_side = {f1.side: f1, f2.side: f2}
        b = self.behaviour
        if b == "local_keep":
            return by_side[0], True
        if b == "local_nokeep":
            return by_side[0], False
        if b == "remote_keep":
            return by_side[1], True
        if b == "remote_nokeep":
            return by_side[1], False
        if b == "merge_nokeep":
            return io.BytesIO(self.merged), False
        if b == "merge_keep":
            return io.BytesIO(self.merged), True
        if b == "none":
            return None
        if b == "raise":
            raise RuntimeError("resolver failed")
        if b == "temp_then_none":
            if self.n == 1:
                raise ex.CloudTemporaryError("resolver busy")
            return None
        if b == "nontuple":
            return 5
        if b == "tuple3":
            return (by_side[0], True, "extra")
        if b == "nonfile":
            return ("not a file", True)
        raise ValueError(b)


def expected(behaviour, a, b, merged):
    """-> (content at the path on both sides, loser content that must be kept as '.conflicted' or None,
           contents that must be gone)"""
    if a == b:
        return a, None, []
    if behaviour == "local_keep":
        return a, b, []
    if behaviour == "local_nokeep":
        return a, None, [b]
    if behaviour == "remote_keep":
        return b, a, []
    if behaviour == "remote_nokeep":
        return b, None, [a]
    if behaviour == "merge_nokeep":
        return merged, None, [a, b]
    # nothing / exception / garbage: the remote version wins, the local one is kept
    return b, a, []


def run_cell(shape, pair, behaviour, flavour, seed, k, acc=None, count=True):
    rng = random.Random("%s:C05:%s:%s:%s:%s:%d" % (seed, shape, pair, behaviour, flavour, k))
    a, b = contents(pair, rng)
    merged = b"merged:" + a[:10] + b[:10]
    tap = ResolverTap(behaviour, merged, rewind=(k % 3 != 2))
    # every other schedule pairs providers with different hash algorithms (the two sides' hashes are then incomparable:
    # "identical content" can only be established by hashing the downloaded bytes with the right provider)
    import hashlib
    hf = (None, (lambda b: hashlib.sha256(b).digest())) if k % 2 else (None, None)
    sim = S.Sim(flavour, rng=random.Random(rng.getrandbits(32)), resolver=tap, hash_funcs=hf)
    probs = []
    name = W.Names(rng).fresh("f")
    steps = []
    try:
        if shape == "edit":
            sim.user({"side": rng.randrange(2), "op": "create", "path": name, "data": b"base:" + a[:4]})
            sim.quiesce()
        first = rng.randrange(2)
        for side in (first, 1 - first):
            data = a if side == 0 else b
            op = "create" if shape == "create" else "write"
            r = sim.user({"side": side, "op": op, "path": name, "data": data})
            if not r.get("ok"):
                probs.append(("harness: conflicting user op rejected", r.get("exc")))
        # the conflict exists now; everything after is schedule
        for _ in range(rng.randrange(0, 12)):
            n = rng.choice(("E0", "E1", "S"))
            steps.append(n)
            sim.step(n)
        sim.quiesce()
        L, R = sim.tree(0), sim.tree(1)
        want, kept, gone = expected(behaviour, a, b, merged)
        for label, t in (("local", L), ("remote", R)):
            got = t.get(name)
            if got != ("file", want):
                probs.append(("path_content_not_the_contractual_one", label, O.short(got), O.short(("file", want)), behaviour))
        conf = {p: v for t in (L, R) for p, v in t.items() if O.is_conflicted(p)}
        conf_contents = {v[1] for v in conf.values() if v[0] == "file"}
        if kept is not None and kept not in conf_contents:
            probs.append(("loser_not_kept_as_conflicted", behaviour, sorted(conf)[:3], kept[:12]))
        if kept is None and conf:
            probs.append(("unexpected_conflicted_artefact", behaviour, sorted(conf)[:3]))
        have = {v[1] for t in (L, R) for v in t.values() if v[0] == "file"}
        for g in gone:
            if g in have and g != want:
                probs.append(("discarded_version_still_present", behaviour, g[:12]))
        extra = [p for p in set(L) | set(R) if p != name and not O.is_conflicted(p)]
        if extra:
            probs.append(("unexpected_extra_path", extra[:3]))
        # resolver calls
        want_calls = 0 if a == b else (2 if behaviour == "temp_then_none" else 1)
        if tap.n != want_calls:
            probs.append(("resolver_call_count", tap.n, want_calls, behaviour, pair))
        for c in tap.calls:
            if set(c) != {0, 1}:
                probs.append(("handles_do_not_carry_both_side_labels", sorted(c)))
            else:
                if c[0]["bytes"] != a or c[1]["bytes"] != b:
                    probs.append(("handle_bytes_are_not_that_sides_content", len(c[0]["bytes"]), len(a), len(c[1]["bytes"]), len(b)))
        role = {a: "A", b: "B", merged: "M"}

        def lab(v):
            return None if v is None else ("dir" if v[0] == "dir" else role.get(v[1], "other"))
        outcome = "%s|%s|%s" % (lab(L.get(name)), lab(R.get(name)),
                                sorted(("L" if p in L else "") + ("R" if p in R else "") + ":" + str(lab(v)) for p, v in conf.items()))
        if count and acc is not None:
            acc.evaluations += 1
            acc.count("engine_steps", sim.steps)
            acc.count("resolver_calls", tap.n)
            cell = "%s/%s/%s/%s" % (shape, pair, behaviour, flavour)
            acc.sets["outcome:" + cell].add(__import__("hashlib").md5(outcome.encode()).hexdigest()[:10] if a != b or True else "")
            if a != b:
                acc.sigs.add(cell + ":" + "".join(s[-1] for s in steps) + ":%d" % first)
    except S.NotQuiescent as e:
        probs.append(("not_quiescent", str(e), behaviour))
    finally:
        sim.close()
    return probs


def k4_probe():
    """finding K4: (new data, keep=True) -> unbounded '.conflicted' chain / never quiesces"""
    for fl in ("oo", "pp"):
        tap = ResolverTap("merge_keep", b"merged-data")
        sim = S.Sim(fl, resolver=tap)
        try:
            sim.user({"side": 0, "op": "create", "path": "f.txt", "data": b"L-version"})
            sim.user({"side": 1, "op": "create", "path": "f.txt", "data": b"R-version"})
            try:
                sim.quiesce(cap=600)
            except S.NotQuiescent:
                return True
            L, R = sim.tree(0), sim.tree(1)
            nconf = len([p for p in set(L) | set(R) if O.is_conflicted(p)])
            have = {v[1] for t in (L, R) for v in t.values() if v[0] == "file"}
            if nconf > 2 or b"L-version" not in have or b"R-version" not in have:
                return True
        finally:
            sim.close()
    return False


def cells():
    return [(sh, pa, be, fl) for sh in SHAPES for pa in PAIRS for be in BEHAV for fl in FLAVS]


def shard(ctx, acc):
    plan = META["plan"][ctx.tier]
    allc = cells()
    for i, (sh, pa, be, fl) in enumerate(allc):
        for k in range(plan["schedules"]):
            if (i * plan["schedules"] + k) % ctx.nshards != ctx.shard:
                continue
            probs = run_cell(sh, pa, be, fl, ctx.seed, k, acc)
            hp = [p for p in probs if str(p[0]).startswith("harness:")]
            if hp:
                acc.inconclusive.append(str(hp[0]))
                continue
            if i % 97 == 0 and k == 0:
                acc.sample({"shape": sh, "contents": pa, "resolver": be, "flavour": fl})
            if probs:
                acc.violation(probs[0][0], probs[:3], {"family": "CELL", "cell": [sh, pa, be, fl], "k": k, "seed": ctx.seed})
    if ctx.shard == 0 and k4_probe():
        acc.known_hit("K4", {"resolver": "returns (new data, keep=True)", "shape": "create/create"})


def post(acc):
    """'the outcome never depends on the interleaving': every cell has exactly one observed outcome"""
    for k, v in acc.sets.items():
        if k.startswith("outcome:") and len(v) > 1:
            acc.violation("outcome_depends_on_interleaving", [k, sorted(v)[:4]], {"family": "CELLSET", "cell": k})
    acc.counters["cells_observed"] = len([k for k in acc.sets if k.startswith("outcome:")])


def conclusive(acc, tier):
    out = []
    if not acc.counters.get("resolver_calls"):
        out.append("the resolver was never called")
    if acc.counters.get("cells_observed", 0) < len(cells()):
        out.append("only %d of %d cells were observed" % (acc.counters.get("cells_observed", 0), len(cells())))
    return out


def coverage_extra(acc, tier):
    return {"cells": len(cells()), "vocab": {"shapes": list(SHAPES), "content_pairs": list(PAIRS), "resolver_behaviours": list(BEHAV),
                                             "flavours": list(FLAVS)}}


def replay(rep):
    c = rep.get("case") or {}
    if c.get("family") == "CELL":
        hits = 0
        for j in range(5):
            p = run_cell(*c["cell"], c["seed"], c["k"] + 1000 * j, None, count=False) if j else run_cell(*c["cell"], c["seed"], c["k"], None, count=False)
            if p:
                hits += 1
                if hits == 1:
                    print(p[:3])
        print("reproduction rate %d/5 (first = the recorded schedule, others = other schedules of the same cell)" % hits)
        return 1 if hits else 0
    print(c)
    return 2
