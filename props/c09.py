"""C09 Storage backends behave as a durable, tag-isolated map of rows."""
import itertools
import os
import random
import threading

from vlib import load as _load
from vlib import sim as S

PROP = "C09"
META = {
    "level": "exploration",
    "engine": "component",
    "claim": "Held on the executed sequences: SqliteStorage (on a real file, with close/reopen interleaved) and the suite's MockStorage are driven in lock-step with a dict model {tag: {id: value}} by every operation sequence of length <= 3 over a 2-tag universe (create/update/delete/read/read_all on first-created, second-created and never-created ids, reopen) and by random sequences of 20-60 operations with empty, large, non-UTF-8, integer and float values; every return value / exception class / follow-up read_all must agree with the model; under 8 concurrent threads with unique values no acknowledged write is lost, ids stay unique, no well-formed call raises and a thread always reads back its own last acknowledged value.",
    "note": "Trusted: the dict model written from the Storage docstrings (update of a missing row raises, delete of a missing row is a no-op, read of a missing row returns None). MockStorage.read raising on a missing id is finding K6 (a test fixture, not edited). Reopening is only claimed for the on-disk backend.",
    "technique": "runtime monitoring: model-based lock-step checking (exhaustive-small + random sequences) and a concurrent unique-value history check per row",
    "plan": {"quick": {"shards": 16, "timeout": 600, "exh": 3, "random": 1500, "threaded": 24},
             "thorough": {"shards": 32, "timeout": 3000, "exh": 4, "random": 60000, "threaded": 400}},
    "rule": "evaluation = one operation sequence on one backend; exhaustive part: all sequences up to the stated length over "
            "24 operation symbols, split over shards; random part: 20-60 operations; threaded part: 8 threads x 150 "
            "operations on shared and private tags; distinct = distinct (backend, sequence); non-trivial = >= 1 create",
    "assumptions": ["one process; SQLite in WAL mode on the sandbox file system"],
}

VALUES = [b"", b"x", b"\xff\xfe\x00binary", b"L" * 100000, 0, 7, 123456789012, 1.5, "text", b"v1", b"v2"]
TAGS = ("t1", "t2")
NEVER = 987654


def symbols():
    syms = []
    for t in TAGS:
        syms.append(("create", t))
    for op in ("update", "delete", "read"):
        for t in TAGS:
            for which in (0, 1, "never"):
                syms.append((op, t, which))
    for t in TAGS + (None,):
        syms.append(("read_all", t))
    syms.append(("reopen",))
    return syms


SYMS = symbols()


class Backend:
    def __init__(self, kind, path=None):
        self.kind = kind
        self.path = path
        if kind == "sqlite":
            from cloudsync.sync.sqlite_storage import SqliteStorage
            self.cls = SqliteStorage
            self.st = SqliteStorage(path)
        else:
            self.dict = {}
            self.st = S.MockStorage(self.dict)

    def reopen(self):
        if self.kind == "sqlite":
            self.st.close()
            self.st = self.cls(self.path)

    def close(self):
        if self.kind == "sqlite":
            self.st.close()
            for suf in ("", "-wal", "-shm"):
                try:
                    os.unlink(self.path + suf)
                except OSError:
                    pass


_BACKENDS = {}


def backend_for(kind, scratch):
    """one backend (one SQLite file) per process and kind; sequences are isolated from each other by fresh tags"""
    if kind not in _BACKENDS:
        _BACKENDS[kind] = Backend(kind, os.path.join(scratch, "c09-%s-%d.db" % (kind, os.getpid())))
    return _BACKENDS[kind]


def run_sequence(kind, seq, path, values, uniq=[0]):
    """seq: list of symbols; returns (problems, known) -- known = K6 hits."""
    b = backend_for(kind, os.path.dirname(path))
    uniq[0] += 1
    tagmap = {t: "%s-%d" % (t, uniq[0]) for t in TAGS}
    seq = [(s[0], tagmap.get(s[1], s[1])) + tuple(s[2:]) if len(s) > 1 else s for s in seq]
    TAGS_ = tuple(tagmap[t] for t in TAGS)
    model = {}
    created = {t: [] for t in TAGS_}
    probs, k6 = [], 0
    vi = 0
    try:
        for sym in seq:
            op = sym[0]
            if op == "reopen":
                b.reopen()
                continue
            if op == "read_all":
                t = sym[1]
                got = b.st.read_all(t) if t is not None else b.st.read_all()
                want = dict(model.get(t, {})) if t is not None else {k: dict(v) for k, v in model.items() if v}
                if t is None:
                    got = {k: dict(v) for k, v in got.items() if v and k in TAGS_}
                if got != want:
                    probs.append(("read_all differs", sym, _short(got), _short(want)))
                continue
            t = sym[1]
            if op == "create":
                v = values[vi % len(values)]
                vi += 1
                eid = b.st.create(t, v)
                if eid in model.get(t, {}):
                    probs.append(("create returned a live id", sym, eid))
                model.setdefault(t, {})[eid] = v
                created[t].append(eid)
                continue
            which = sym[2]
            if which == "never":
                eid = NEVER
            else:
                ids = created[t] or created[TAGS_[1 - TAGS_.index(t)]]     # other tag's id: coinciding ids across tags
                if len(ids) <= which:
                    continue
                eid = ids[which]
            live = eid in model.get(t, {})
            if op == "update":
                v = values[vi % len(values)]
                vi += 1
                try:
                    b.st.update(t, v, eid)
                    if not live:
                        probs.append(("update of a missing row did not fail", sym, eid))
                    else:
                        model[t][eid] = v
                except Exception as e:      # noqa
                    if live:
                        probs.append(("update of a live row raised", sym, type(e).__name__))
            elif op == "delete":
                try:
                    b.st.delete(t, eid)
                    model.get(t, {}).pop(eid, None)
                except Exception as e:      # noqa
                    probs.append(("delete raised", sym, type(e).__name__))
            elif op == "read":
                try:
                    got = b.st.read(t, eid)
                    want = model.get(t, {}).get(eid)
                    if got != want or type(got) is not type(want):
                        probs.append(("read differs", sym, _short(got), _short(want)))
                except ValueError:
                    if not live and kind == "mock":
                        k6 += 1             # finding K6: MockStorage.read raises instead of returning nothing
                    else:
                        probs.append(("read raised", sym, "ValueError"))
                except Exception as e:      # noqa
                    probs.append(("read raised", sym, type(e).__name__))
            if probs:
                break
        if not probs:
            # final audit, also after a reopen for the on-disk backend
            b.reopen()
            for t in TAGS_:
                got = b.st.read_all(t)
                if got != model.get(t, {}):
                    probs.append(("final read_all differs after reopen", t, _short(got), _short(model.get(t, {}))))
    finally:
        for t in TAGS_:                     # leave nothing behind for the next sequence
            for eid in list(b.st.read_all(t)):
                b.st.delete(t, eid)
    return probs, k6


def _short(x):
    s = repr(x)
    return s if len(s) < 160 else s[:160] + "..."


def threaded_round(kind, path, rng, nthreads=8, nops=150):
    b = Backend(kind, path)
    errs = []
    acks = [dict() for _ in range(nthreads)]            # (tag, id) -> last acknowledged value, rows owned by the thread
    all_ids = [[] for _ in range(nthreads)]
    seeds = [rng.getrandbits(32) for _ in range(nthreads)]

    def worker(i):
        r = random.Random(seeds[i])
        mine = acks[i]
        n = 0
        try:
            for _ in range(nops):
                n += 1
                tag = r.choice(("shared", "priv%d" % i))
                val = b"%d:%d" % (i, n)
                k = r.random()
                if k < 0.35 or not mine:
                    eid = b.st.create(tag, val)
                    all_ids[i].append((tag, eid))
                    mine[(tag, eid)] = val
                elif k < 0.6:
                    key = r.choice(list(mine))
                    b.st.update(key[0], val, key[1])
                    mine[key] = val
                elif k < 0.7:
                    key = r.choice(list(mine))
                    b.st.delete(key[0], key[1])
                    del mine[key]
                elif k < 0.9:
                    key = r.choice(list(mine))
                    got = b.st.read(key[0], key[1])
                    if got != mine[key]:
                        errs.append(("thread read a row only it writes and got another value", i, key, _short(got), mine[key]))
                else:
                    got = b.st.read_all("priv%d" % i)
                    want = {k2[1]: v for k2, v in mine.items() if k2[0] == "priv%d" % i}
                    if got != want:
                        errs.append(("read_all of a private tag differs", i, _short(got), _short(want)))
        except Exception as e:      # noqa
            errs.append(("exception out of a well-formed call", i, type(e).__name__, str(e)[:120]))

    import sys
    old = sys.getswitchinterval()
    sys.setswitchinterval(1e-5)
    try:
        ths = [threading.Thread(target=worker, args=(i,)) for i in range(nthreads)]
        for t in ths:
            t.start()
        for t in ths:
            t.join()
    finally:
        sys.setswitchinterval(old)
    try:
        # no acknowledged write lost, ids unique per tag
        for tag in ["shared"] + ["priv%d" % i for i in range(nthreads)]:
            got = b.st.read_all(tag)
            want = {}
            for i in range(nthreads):
                for (t, eid), v in acks[i].items():
                    if t == tag:
                        if eid in want:
                            errs.append(("duplicate id handed out", tag, eid))
                        want[eid] = v
            if got != want:
                lost = [k for k in want if got.get(k) != want[k]][:3]
                extra = [k for k in got if k not in want][:3]
                errs.append(("final rows differ from acknowledged writes", tag, "lost/stale", lost, "extra", extra))
        b.reopen()
    finally:
        b.close()
    return errs, sum(len(a) for a in all_ids)


def db_dir():
    """SQLite files go to a RAM-backed directory when there is one (fsync on every close dominates otherwise)"""
    import tempfile, atexit, shutil
    base = "/dev/shm" if os.path.isdir("/dev/shm") and os.access("/dev/shm", os.W_OK) else _load.scratch_dir()
    d = tempfile.mkdtemp(prefix="verif-c09-", dir=base)
    atexit.register(shutil.rmtree, d, True)
    return d


def shard(ctx, acc):
    _load.load()
    plan = META["plan"][ctx.tier]
    scratch = db_dir()
    rng = ctx.rng("c09")
    nseq = 0
    for kind in ("sqlite", "mock"):
        # exhaustive-small
        idx = 0
        for n in range(1, plan["exh"] + 1):
            for seq in itertools.product(SYMS, repeat=n):
                idx += 1
                if idx % ctx.nshards != ctx.shard:
                    continue
                if not any(s[0] == "create" for s in seq):
                    if n > 2:
                        continue            # without a create everything acts on missing rows; length <= 2 covers that
                probs, k6 = run_sequence(kind, seq, os.path.join(scratch, "e%d.db" % idx), [b"v1", b"\xff\x00", 7])
                acc.evaluations += 1
                nseq += 1
                acc.count("exhaustive_sequences_" + kind)
                if k6:
                    acc.known_hit("K6", {"backend": kind, "sequence": [list(s) for s in seq]})
                if any(s[0] == "create" for s in seq):
                    acc.sigs.add("%s:e%d" % (kind, idx))
                if probs:
                    acc.violation(probs[0][0], probs[:3], {"family": "SEQ", "backend": kind, "seq": [list(s) for s in seq]})
        # random long sequences with all value shapes
        for j in range(ctx.shard, plan["random"], ctx.nshards):
            r = random.Random("%s:%s:c09r:%d" % (ctx.seed, kind, j))
            seq = [r.choice(SYMS) for _ in range(r.randrange(20, 61))]
            vals = VALUES[:]
            r.shuffle(vals)
            probs, k6 = run_sequence(kind, seq, os.path.join(scratch, "r%d.db" % j), vals)
            acc.evaluations += 1
            acc.count("random_sequences_" + kind)
            acc.count("operations", len(seq))
            if k6:
                acc.known_hit("K6", {"backend": kind, "sequence": "random %d" % j})
            acc.sigs.add("%s:r%d" % (kind, j))
            if j < 2 and kind == "sqlite":
                acc.sample({"backend": kind, "sequence": [list(map(str, s)) for s in seq[:25]]})
            if probs:
                acc.violation(probs[0][0], probs[:3], {"family": "SEQ", "backend": kind, "seq": [list(s) for s in seq],
                                                       "values": "shuffled(%s:%s:c09r:%d)" % (ctx.seed, kind, j)})
        # threaded
        for j in range(ctx.shard, plan["threaded"], ctx.nshards):
            errs, nids = threaded_round(kind, os.path.join(scratch, "t%d.db" % j), random.Random("%s:c09t:%s:%d" % (ctx.seed, kind, j)))
            acc.evaluations += 1
            acc.count("threaded_rounds_" + kind)
            acc.count("threaded_rows_created", nids)
            acc.sigs.add("%s:t%d" % (kind, j))
            if errs:
                acc.violation("threaded:" + errs[0][0], errs[:3], {"family": "THREADED", "backend": kind, "round": j})


def conclusive(acc, tier):
    out = []
    for k in ("exhaustive_sequences_sqlite", "random_sequences_sqlite", "threaded_rounds_sqlite", "exhaustive_sequences_mock"):
        if not acc.counters.get(k):
            out.append("%s = 0" % k)
    return out


def replay(rep):
    _load.load()
    c = rep.get("case") or {}
    if c.get("family") == "SEQ" and "values" not in c:
        seq = [tuple(s) for s in c["seq"]]
        probs, k6 = run_sequence(c["backend"], seq, os.path.join(_load.scratch_dir(), "replay.db"), [b"v1", b"\xff\x00", 7])
        print(probs[:3])
        return 1 if probs else 0
    if c.get("family") == "THREADED":
        hits = 0
        for k in range(10):
            errs, _ = threaded_round(c["backend"], os.path.join(_load.scratch_dir(), "replay-t.db"), random.Random(k))
            hits += 1 if errs else 0
            if errs and hits == 1:
                print(errs[:2])
        print("reproduction rate %d/10" % hits)
        return 1 if hits else 0
    print("replay of random sequences: rerun the check with the same VERIF_SEED")
    return 2
