"""C14 Events are hints: duplicated, delayed, reordered, replayed events change nothing."""
import copy
import random

from vlib import engine_check as E
from vlib import family as F
from vlib import oracles as O
from vlib import sim as S
from vlib import workload as W
from vlib.runner import Monitor
from vlib.shard import Acc

PROP = "C14"
META = {
    "level": "exploration",
    "claim": "Held on the executed runs: with each side's event stream mangled (every event possibly delivered twice at once or again much later, batches split into single-event deliveries, id-less copies and events about ids that never existed mixed in, path fields dropped, manual full walks interleaved, and - on id-stable providers only - events held back for a finite time and batches permuted) the quiescent trees still satisfy the family's oracle (exact mirror for one-sided, exact merge for disjoint, convergence with no content lost for same-path histories), no '.conflicted' artefact appears in conflict-free families, files that were synchronised before and that no user touches are never written, renamed or deleted by the engine, and no engine write ever names a ghost id.",
    "note": "Trusted: the mangler sits on provider.events() (the boundary the engine reads); held-back events are released before the final quiescence (finite delay). Delay and permutation are applied to id-stable providers only, as the statement says. The 'no spurious transfer' clause is decided on untouched files: an upload of identical bytes can also be produced without mangling when a user write races with the engine's download (observed on the pinned tree), so a per-upload comparison would be a false alarm.",
    "technique": "runtime monitoring with event-stream mangling at the provider boundary + family oracles + untouched-object write ledger",
    "plan": {"quick": {"shards": 16, "timeout": 600, "cases": 9000},
             "thorough": {"shards": 32, "timeout": 3000, "cases": 250000}},
    "rule": "case = main-family case (ONE/DISJ/CONF/REUSE x flavour x shape; REUSE without reordering manglers; + cases//3 REMK cases (folder removed and made again under the same name in one window, id-stable acting side, all manglers; failures under reordered delivery are K24 and judged as a rate), plus cases//6 REUSE cases with them whose failures are attributed to K24 by predicate) + 2-4 never-touched files in the base tree + a mangler "
            "configuration per side drawn from {dup, late-dup, split, idless, ghost, droppath, delay, permute} + optional "
            "manual walks; distinct = distinct (case signature, mangler sets); non-trivial = >= 1 event mangled and >= 1 engine write",
    "assumptions": ["events of the mock carry the provider cursor; no restarts in this check"],
}

MANGLERS_ALL = ("dup", "split", "idless", "ghost", "droppath")
MANGLERS_STABLE = ("delay", "permute", "latedup")     # a late duplicate is a late delivery: id-stable providers only


class Mangler:
    def __init__(self, rng, kinds, side, stats):
        self.rng, self.kinds, self.side, self.stats = rng, set(kinds), side, stats
        self.held = []
        self.ready = []
        self.seen = []
        self.flush = False
        self.nghost = 0
        self.budget = 12                # extra (ghost / late duplicate) events per side and case: the stream stays finite

    def pending(self):
        return bool(self.held or self.ready)

    def __call__(self, src):
        from cloudsync.event import Event
        rng, st = self.rng, self.stats
        batch = list(src)
        self.seen.extend(copy.copy(e) for e in batch[-20:])
        del self.seen[:-200]
        out = []
        ordered = "delay" not in self.kinds and "permute" not in self.kinds
        if self.held and ordered and batch:
            # per-event batching must not reorder: everything held back goes out before anything newer
            out.extend(self.held)
            del self.held[:]
        elif self.held and (self.flush or rng.random() < 0.5):
            n = len(self.held) if self.flush else rng.randrange(1, len(self.held) + 1)
            out.extend(self.held[:n])
            del self.held[:n]
        for e in batch:
            if "delay" in self.kinds and not self.flush and rng.random() < 0.3:
                self.held.append(e)
                st["delayed"] += 1
                continue
            out.append(e)
            if "dup" in self.kinds and rng.random() < 0.4:
                out.append(copy.copy(e))
                st["duplicated"] += 1
            if "idless" in self.kinds and rng.random() < 0.2:
                g = copy.copy(e)
                g.oid = None
                g.prior_oid = None
                out.append(g)
                st["idless"] += 1
            if "droppath" in self.kinds and e.path and not e.prior_oid and rng.random() < 0.3:
                e.path = None
                st["path_dropped"] += 1
        if "latedup" in self.kinds and self.seen and batch and self.budget > 0 and rng.random() < 0.5:
            self.budget -= 1
            out.append(copy.copy(rng.choice(self.seen)))
            st["late_duplicates"] += 1
        if "ghost" in self.kinds and batch and self.budget > 0 and rng.random() < 0.5:
            from cloudsync.types import FILE, DIRECTORY
            self.budget -= 1
            self.nghost += 1
            gid = "ghost-%d-%d" % (self.side, self.nghost)
            out.append(Event(rng.choice((FILE, DIRECTORY)), gid, rng.choice((None, "/local/ghost%d" % self.nghost)), None,
                             rng.choice((True, False, None))))
            st["ghosts"] += 1
        if "permute" in self.kinds and len(out) > 1:
            rng.shuffle(out)
            st["permuted_batches"] += 1
        if "split" in self.kinds and len(out) > 1 and not self.flush:
            # what is emitted here is older than whatever is still held (see above), so it goes back in front
            self.held = out[1:] + self.held
            out = out[:1]
            st["split_batches"] += 1
        # the consumer may stop after the first event (EventManager.busy does): whatever it did not take stays ready
        self.ready.extend(out)
        while self.ready:
            yield self.ready.pop(0)


class Untouched(Monitor):
    """files synchronised before the history that no user touches must never be written by the engine"""

    def __init__(self, names):
        self.names = names
        self.ids = [set(), set()]

    def after_base(self, sim, case):
        for side in (0, 1):
            for n in self.names:
                info = sim.providers[side].info_path(sim.abspath(side, n))
                if info is not None:
                    self.ids[side].add(info.oid)


def add_untouched(case, rng):
    """2-4 extra base files that the history never touches"""
    g = W.Gen(rng)
    names = []
    side = case.get("base_side", 0)
    extra = []
    for _ in range(rng.randrange(2, 5)):
        n = "keep-" + g.names.fresh("u")
        names.append(n)
        extra.append({"side": side, "op": "create", "path": n, "data": g.contents.fresh(side, rng.choice((12, 1500, 3000))), "obj": 0})
    case = dict(case)
    case["base"] = list(case["base"]) + extra
    if case.get("expect") is not None:
        case["expect"] = dict(case["expect"], **{e["path"]: ("file", e["data"]) for e in extra})
    case["untouched"] = names
    return case


def evaluate(case, obs, sim, monitors):
    led, unt = monitors[:2]
    probs = list(obs.problems)
    if obs.unhandled:
        probs.append(("exception_escaped_step", obs.unhandled[:2]))
    since = getattr(sim.world, "calls_base", 0)
    for c in sim.world.calls[since:]:
        if c["op"] not in S.WRITES:
            continue
        if str(c.get("oid", "")).startswith("ghost-"):
            probs.append(("engine_write_names_a_ghost_id", O.brief_call(c)))
        if c.get("ok") and c.get("ev") and c.get("oid") in unt.ids[c["side"]]:
            probs.append(("engine_wrote_an_untouched_synchronised_file", O.brief_call(c)))
        if c["op"] == "create" and c.get("path") and any(c["path"].endswith("/" + n) for n in unt.names):
            probs.append(("engine_created_an_untouched_file_again", O.brief_call(c)))
    if obs.trees is None:
        return probs
    L, R = obs.trees
    expect = case.get("expect")
    if expect is not None:
        probs.extend(O.exact_problems(L, expect, "local_tree"))
        probs.extend(O.exact_problems(R, expect, "remote_tree"))
        cp = O.conflicted_paths(L, R)
        if cp:
            probs.append(("conflicted_artefact", cp[:3]))
        if case["family"].startswith(("ONE", "REUSE", "REMK")) and case["family"] != "REUSE2":
            side = int(case["family"][-1])
            ow = [c for c in O.engine_writes(sim, side=side, since=since) if c.get("ok") and c.get("ev")]
            if ow:
                probs.append(("engine_write_on_origin_side", [O.brief_call(c) for c in ow[:2]]))
    else:
        probs.extend(O.converged_problems(L, R))
        lost = led.lost(L, R)
        if lost:
            probs.append(("content_lost", lost[:3]))
    return probs


def reuse_sides(case):
    """sides whose user takes a path again that another object of that side held earlier in the history (delete + create,
    rename away + rename onto, ... of files or folders)"""
    out = set()
    for side in (0, 1):
        vacated = set()
        for e in case["sched"]:
            if e[0] != "U" or e[1]["side"] != side:
                continue
            op = e[1]
            taken = op.get("to") if op["op"] in ("rename", "rendir") else (op["path"] if op["op"] in ("create", "mkdir") else None)
            if taken is not None and taken in vacated:
                out.add(side)
            if op["op"] in ("delete", "rmdir", "rename", "rendir"):
                vacated.add(op["path"])
    return out


def k24_eligible(case):
    """input predicate of finding K24: on a side whose stream is reordered (delay / permute / late duplicate), a path that
    one object vacated is taken by another object - a stale event then shows two objects at one path"""
    return any(set(case["manglers"][side]) & set(MANGLERS_STABLE) for side in reuse_sides(case))


def k28_sides(case):
    """input predicate of finding K28: the sides B whose event stream carries the *echo* of a folder rename made by the
    user of side A = 1-B, when A later deletes / renames something below the renamed folder.  If B's stream is delivered
    late, the echo (children of the folder 'moved' on B) arrives after A's later change and is taken for a user's rename on
    B: A's deletion is undone."""
    out = set()
    for a in (0, 1):
        targets = []
        for e in case["sched"]:
            if e[0] != "U" or e[1]["side"] != a:
                continue
            op = e[1]
            if op["op"] in ("delete", "rmdir", "rename", "rendir") and any(op["path"].startswith(t + "/") for t in targets):
                out.add(1 - a)
            if op["op"] == "rendir":
                targets.append(op["to"])
    return out


def k28_eligible(case):
    return any(set(case["manglers"][b]) & set(MANGLERS_STABLE) for b in k28_sides(case))


def make(seed, i, flavours, seek=False):
    if seek:
        case = F.make_case(seed, PROP + "seek", i, families=("REUSE0", "REUSE1", "ONE0", "ONE1", "DISJ"),
                           flavours=("oo", "of", "fo", "po", "op"))
    else:
        case = F.make_case(seed, PROP, i, flavours=flavours)
    rng = random.Random("%s:C14m:%d" % (seed, i))
    case = add_untouched(case, rng)
    kinds = []
    # histories that take vacated names again (REUSE) get reordering manglers only in the seek round: a stale event that
    # places a moved folder back at its old path makes the engine write that folder's entry off when another folder is
    # created there (finding K24)
    stable_ok = seek or not case["family"].startswith("REUSE")
    echo_sides = set() if seek else (k28_sides(case) | reuse_sides(case))   # main round: no late delivery where K28 / K24 apply
    for side in (0, 1):
        pool = list(MANGLERS_ALL) + (list(MANGLERS_STABLE) if case["flavour"][side] != "p" and stable_ok
                                     and side not in echo_sides else [])
        kinds.append(sorted(rng.sample(pool, rng.randrange(1, 4))))
    case["manglers"] = kinds
    # manual walks interleaved
    if rng.random() < 0.3:
        sched = list(case["sched"])
        for _ in range(rng.randrange(1, 3)):
            sched.insert(rng.randrange(0, len(sched) + 1), ["W", rng.randrange(2)])
        case["sched"] = sched
    return case


def run(case, acc=None, count=True):
    acc = acc or Acc()
    stats = {k: 0 for k in ("delayed", "duplicated", "idless", "path_dropped", "late_duplicates", "ghosts", "permuted_batches",
                            "split_batches")}
    mons = []
    rng = random.Random("%s:mangle" % case.get("sim_seed", 0))

    class Install(Monitor):
        def after_base(self, sim, case_):
            self.m = []
            for side in (0, 1):
                m = Mangler(random.Random(rng.getrandbits(32)), case["manglers"][side], side, stats)
                sim.taps[side].mangler = m
                self.m.append(m)

        def at_quiescence(self, sim, final):
            pass

    def fac():
        mons[:] = [O.ContentLedger(), Untouched(case.get("untouched", [])), Install()]
        return mons

    # walks ('W' entries) are executed by a pre-processing of the schedule: the runner knows 'U', steps, 'Q'
    walk_case = dict(case)
    walk_case["sched"] = [e for e in case["sched"]]

    def ev(case_, obs, sim, monitors):
        return evaluate(case_, obs, sim, monitors)

    probs = run_with_walks(walk_case, acc, ev, fac, count)
    if count:
        for k, v in stats.items():
            acc.count("events_" + k, v)
        acc.add("manglers", "+".join(case["manglers"][0]) + "|" + "+".join(case["manglers"][1]))
        if sum(stats.values()):
            acc.count("cases_with_mangled_events")
    return probs


def run_with_walks(case, acc, ev, fac, count):
    """like engine_check.run_one, with support for ['W', side] schedule entries (manual full walk) and a final flush of
    held-back events before the last quiescence"""
    from vlib import runner as RN
    import hashlib
    monitors = list(fac())
    import os
    if os.environ.get("VERIF_TRACE"):
        monitors.append(O.Tracer())
    # split the schedule at walks
    segs, cur = [], []
    for e in case["sched"]:
        if e[0] == "W":
            segs.append((cur, e[1]))
            cur = []
        else:
            cur.append(e)
    segs.append((cur, None))
    sim = None
    obs = None
    first = dict(case)
    first["sched"] = []
    obs, sim = RN.run_case(first, monitors=monitors, sim_kwargs={"rng": random.Random(case.get("sim_seed", 0))}, keep_sim=True,
                           final_quiesce=False)
    try:
        if obs.harness_error:
            acc.errors.append(obs.harness_error)
            return None
        for seg, walk_side in segs:
            for e in seg:
                k = e[0]
                if k == "U":
                    for m in monitors:
                        m.before_user(sim, e[1])
                    rec = sim.user(e[1])
                    obs.user.append(rec)
                    for m in monitors:
                        m.after_user(sim, rec)
                elif k in ("E0", "E1", "S"):
                    sim.step(k)
                    for m in monitors:
                        m.after_step(sim, k)
                elif k == "Q":
                    try:
                        obs.quiesce_steps.append(sim.quiesce())
                    except S.NotQuiescent as x:
                        obs.problems.append(("not_quiescent", str(x)))
            if walk_side is not None:
                w = sim.world
                w.ctx = "engine"
                try:
                    sim.cs.walk(side=walk_side)
                except S.ex.CloudException:
                    pass
                finally:
                    w.ctx = "user"
                if case["flavour"][walk_side] == "p":
                    # walk events are a snapshot: on a path-id provider they must be consumed promptly (late delivery is
                    # only promised harmless for id-stable providers)
                    sim.step("E%d" % walk_side)
                acc.count("manual_walks") if count else None
        for t in sim.taps:
            if t.mangler is not None:
                t.mangler.flush = True
        if not any(p[0] == "not_quiescent" for p in obs.problems):
            try:
                obs.quiesce_steps.append(sim.quiesce())
                obs.trees = (sim.tree(0), sim.tree(1))
            except S.NotQuiescent as x:
                obs.problems.append(("not_quiescent", str(x)))
        from vlib import load as _load
        obs.unhandled = [u for u in _load.unhandled if u[1] != "Crash"]
        del _load.unhandled[:]
        if count:
            acc.evaluations += 1
            since = getattr(sim.world, "calls_base", 0)
            writes = len(O.engine_writes(sim, since=since))
            acc.count("engine_steps", sim.steps)
            acc.count("engine_writes", writes)
            acc.count("user_ops", len(obs.user))
            acc.add("flavours", case["flavour"])
            acc.add("families", case["family"])
            if writes:
                acc.sigs.add(W.signature(case) + ":" + str(case.get("manglers")))
        return ev(case, obs, sim, monitors)
    finally:
        sim.close()


def shard(ctx, acc):
    plan = META["plan"][ctx.tier]
    flavours = F.S.FLAVOURS_MAIN if ctx.tier == "quick" else F.S.FLAVOURS_ALL
    for i in F.indices(ctx, plan["cases"]):
        case = make(ctx.seed, i, flavours)
        hz, _ = F.classify(case)
        if hz:
            acc.inconclusive.append("generator bug: main-family case %d has hazard %s" % (i, sorted(hz)))
            continue
        probs = run(case, acc)
        if probs is None:
            continue
        acc.sample(dict(W.brief_case(case), manglers=case["manglers"]), cap=3)
        if probs:
            acc.violation(probs[0][0], probs[:4], case)
    # REMK: folders removed and made again under the same name inside one window (a new object at an old path) on an id-stable
    # side, every mangler allowed including late / reordered delivery (measured: 0 of 3 200 on the pinned tree)
    for i in F.indices(ctx, plan["cases"] // 3):
        case = F.make_case(ctx.seed, PROP + "remk", i, families=("REMK0", "REMK1"), flavours=("oo", "of", "fo", "op", "po"),
                           nops=(4, 10))
        side = int(case["family"][-1])
        if case["flavour"][side] == "p":
            continue
        rng = random.Random("%s:C14remk:%d" % (ctx.seed, i))
        case = add_untouched(case, rng)
        kinds = []
        for s_ in (0, 1):
            pool = list(MANGLERS_ALL) + (list(MANGLERS_STABLE) if case["flavour"][s_] != "p" else [])
            kinds.append(sorted(rng.sample(pool, rng.randrange(1, 4))))
        case["manglers"] = kinds
        probs = run(case, acc)
        if probs is None:
            continue
        acc.count("remk_cases")
        if k24_eligible(case):
            acc.count("remk_cases_with_reordered_delivery")
        if probs:
            if k24_eligible(case):
                # the thorough tier showed that this sub-space is not completely clean on the pinned tree (3 failures in
                # 54 000 REMK cases, all with reordered delivery on the acting side): attributed to K24, and judged as a
                # rate over the run in post() - a source change that breaks this handling fails hundreds of times more often
                acc.count("remk_failures_attributed_K24")
                acc.known_hit("K24", dict(W.brief_case(case), manglers=case["manglers"]))
                if len(acc.samples) < 6:
                    acc.sample({"remk_failure": str(probs[0])[:200], "case": W.brief_case(case)}, cap=6)
            else:
                acc.violation("remk:" + probs[0][0], probs[:4], case)
    if ctx.shard == 0:
        from vlib import probes as P
        P.run_fixed_demos(PROP, acc)
    # seek round: name reuse under reordered delivery; failures attributed to K24 by input predicate or reported
    for i in F.indices(ctx, plan["cases"] // 6):
        case = make(ctx.seed, i, flavours, seek=True)
        probs = run(case, acc)
        if probs is None:
            continue
        acc.count("seek_cases")
        if probs:
            if k24_eligible(case):
                acc.count("seek_failures_attributed_K24")
                acc.known_hit("K24", dict(W.brief_case(case), manglers=case["manglers"]))
            elif k28_eligible(case):
                acc.count("seek_failures_attributed_K28")
                acc.known_hit("K28", dict(W.brief_case(case), manglers=case["manglers"]))
            else:
                acc.violation("seek:" + probs[0][0], probs[:4], case)


def post(acc):
    """REMK failures under reordered delivery are K24 on the pinned tree at a rate of about 0.006 %; a rate above 0.1 % (and
    at least 3 failures) is not that finding any more"""
    tot = acc.counters.get("remk_cases_with_reordered_delivery", 0)
    bad = acc.counters.get("remk_failures_attributed_K24", 0)
    if bad >= 3 and tot and bad > 0.001 * tot:
        acc.violation("remk_failure_rate_far_above_the_known_findings", ["%d of %d REMK cases with reordered delivery failed (pinned tree: about 1 in 18 000)" % (bad, tot)],
                      {"family": "REMK-RATE"})


def conclusive(acc, tier):
    out = []
    if not acc.counters.get("cases_with_mangled_events"):
        out.append("no event was mangled")
    for k in ("events_duplicated", "events_delayed", "events_ghosts", "events_idless"):
        if not acc.counters.get(k):
            out.append("%s = 0" % k)
    return out


coverage_extra = E.coverage_extra
replay = E.replay_with(lambda c: run(c, count=False))
