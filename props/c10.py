"""C10 Transient provider faults: survive, report, retry, still converge."""
import random

from vlib import engine_check as E
from vlib import family as F
from vlib import oracles as O
from vlib import sim as S
from vlib import workload as W
from vlib.runner import Monitor
from vlib.shard import Acc

ex = S.ex
PROP = "C10"
META = {
    "level": "exploration",
    "claim": "Held on the executed runs: with temporary / disconnected / expired-token / out-of-space errors injected at engine provider API calls (random rate 2-15% per call, and complete single-fault enumeration over every call index x kind of short histories) no exception escapes a service step except through the loop's own handlers, every temporary, disconnected and out-of-space fault is followed by a notification of the matching type before the next fault, all notifications raised are delivered in order, and after the faults stop the family oracle holds with no user content lost; a locked path and an invalid name are reported, do not stop other files from synchronising within the step cap, and synchronise once lifted / renamed.",
    "note": "Trusted: faults are injected at MockProvider._api (before the provider mutates anything) in engine context only, plus, in rate plans, downloads that break off with a temporary error after half of the bytes reached the engine's handle (15 % of engine downloads; decided by the final content oracle, no notification clause); disconnect/token faults also drop the provider's connection as DEVELOP.md requires of real providers. Fault inside the filtered-events walk after the cursor advanced is finding K5 (flavours with event filtering).",
    "technique": "runtime monitoring with fault injection at the provider API seam: step-exception monitor, fault->notification matching, family oracle after faults stop",
    "plan": {"quick": {"shards": 16, "timeout": 900, "cases": 5000, "enum": 64, "perm": 600},
             "thorough": {"shards": 32, "timeout": 3400, "cases": 150000, "enum": 1500, "perm": 20000}},
    "rule": "random part: main-family case (ONE/DISJ/CONF) x flavour x shape with a per-call fault rate drawn from "
            "{2,5,10,15}% and kinds drawn from the 5 kinds; enumeration part: short ONE/DISJ history run once to count its "
            "engine API calls n, then n x 4 runs with exactly the k-th call failing; permanent part: locked destination "
            "path / forbidden character scenarios; distinct = (case signature, fault plan); non-trivial = >= 1 fault injected",
    "assumptions": ["a user's own session is unaffected by the engine's connection state"],
}

KINDS = ("temporary", "disconnected", "token", "token_expired", "outofspace")
NTYPE = {"temporary": "temporary_error", "disconnected": "disconnected_error", "outofspace": "out_of_space_error"}


def make_exc(kind, tap):
    if kind == "temporary":
        return ex.CloudTemporaryError("injected")
    if kind == "disconnected":
        return ex.CloudDisconnectedError("injected")
    if kind == "token":
        return ex.CloudTokenError("injected")
    if kind == "token_expired":
        tap.prov._creds = None                      # pylint: disable=protected-access  (reconnect must re-authenticate)
        return ex.CloudTokenError("injected: expired")
    if kind == "outofspace":
        return ex.CloudOutOfSpaceError("injected")
    raise ValueError(kind)


class FaultPlan(Monitor):
    """rate plan: each engine API call fails with probability p; or single plan: exactly call (side, k) fails."""

    def __init__(self, rng, rate=0.0, kinds=KINDS, single=None):
        self.rng, self.rate, self.kinds, self.single = rng, rate, kinds, single
        self.active = True
        self.marks = []             # (kind, side, index into sim.raised at injection, stack names)
        self.api_total = [0, 0]
        self.trng = random.Random("torn:%r" % (rate,))
        self.torn_count = 0

    def on_sim(self, sim, case):
        self.sim = sim

    def after_base(self, sim, case):
        for t in sim.taps:
            t.api_calls = 0
            t.fault_plan = self.plan
            if self.single is None and self.rate:
                t.torn = self.torn

    def torn(self, oid, path):
        """rate plans only: one engine download in seven delivers half of the bytes and then fails with a temporary error"""
        if not self.active:
            return False
        if self.trng.random() < 0.15:
            self.torn_count += 1
            return True
        return False

    def plan(self, tap, idx, args):
        if not self.active:
            return None
        if args and args[0] == "connect_impl":
            return None                             # reconnecting itself is left alone: faults are finite
        kind = None
        if self.single is not None:
            if (tap.side, idx) == self.single[:2]:
                kind = self.single[2]
        elif self.rng.random() < self.rate:
            kind = self.rng.choice(self.kinds)
        if kind is None:
            return None
        self.marks.append([kind, tap.side, len(self.sim.raised), None])
        return make_exc(kind, tap)

    def stop(self, sim):
        self.active = False
        self.api_total = [t.api_calls for t in sim.taps]
        for p in sim.providers:
            if p._creds is None:                    # pylint: disable=protected-access
                p._creds = {"key": "val"}           # pylint: disable=protected-access


def fault_problems(sim, fp, k5_ok):
    """fault -> notification matching at the queue boundary + delivery order."""
    probs = []
    inj = [i for i in sim.world.injected if "stack" in i]
    for n, (kind, side, ridx, _) in enumerate(fp.marks):
        want = NTYPE.get(kind)
        if want is None:
            continue
        end = fp.marks[n + 1][2] if n + 1 < len(fp.marks) else len(sim.raised)
        got = [x.ntype.value for x in sim.raised[ridx:max(end, ridx)]]
        # a fault may be met while another is being handled; accept a match up to the second-next fault
        end2 = fp.marks[n + 2][2] if n + 2 < len(fp.marks) else len(sim.raised)
        got2 = [x.ntype.value for x in sim.raised[ridx:end2]]
        if want not in got and want not in got2:
            stack = inj[n]["stack"] if n < len(inj) else []
            site = [f for f in stack if f in ("walk_oid", "_walk", "events", "change", "_sync_one_entry", "get_latest",
                                              "_process_event", "busy", "set_root", "_validate_provider_roots")]
            if k5_ok and ("walk_oid" in stack or "_walk" in stack) and "events" in stack:
                probs.append(("K5", kind, side))
                continue
            if "busy" in stack and "step" not in stack:
                continue                            # the harness's own busy probe met the fault: no service step ran
            probs.append(("fault_not_reported", kind, side, inj[n].get("op") if n < len(inj) else None, site, got2[:4]))
    return probs


def evaluate_after(case, obs, sim, led, fp):
    probs = list(obs.problems)
    if obs.unhandled:
        probs.append(("exception_escaped_step", obs.unhandled[:2]))
    probs.extend(fault_problems(sim, fp, "f" in case["flavour"]))
    sim.drain_notifications()
    if [id(x) for x in sim.notifications] != [id(x) for x in sim.raised]:
        probs.append(("notifications_not_delivered_in_order", len(sim.raised), len(sim.notifications)))
    if obs.trees is None:
        return probs
    L, R = obs.trees
    expect = case.get("expect")
    if expect is not None:
        probs.extend(O.exact_problems(L, expect, "local_tree"))
        probs.extend(O.exact_problems(R, expect, "remote_tree"))
    else:
        probs.extend(O.converged_problems(L, R))
    lost = led.lost(L, R)
    if lost:
        probs.append(("content_lost", lost[:3]))
    return probs


def run(case, acc=None, count=True, rate=None, single=None):
    """Executes the schedule under the fault plan, stops the faults, then quiesces and evaluates."""
    acc = acc or Acc()
    rng = random.Random("%s:faults" % case.get("sim_seed", 0))
    if rate is None and single is None:
        rate = case.get("rate", 0.05)
    led = O.ContentLedger()
    fp = FaultPlan(rng, rate=rate or 0.0, single=single)
    mons = [led, fp]
    holder = {}

    class StopFaults(Monitor):
        # the runner's final quiescence must happen after the faults stopped: end the plan at the last schedule entry
        pass

    # call-site observation for finding K30: the engine's own "Giving up" on a folder deletion whose children still appear
    # to exist (SyncManager._handle_dir_delete_not_empty), reached while faults inflate the retry priorities
    import logging
    gave_up = []

    class _GiveUp(logging.Handler):
        def emit(self, r):
            try:
                if "Giving up" in r.getMessage():
                    gave_up.append(r.getMessage()[:160])
            except Exception:       # noqa
                pass
    gh = _GiveUp()
    glog = logging.getLogger("cloudsync.sync.manager")
    glog.addHandler(gh)
    old_level = glog.level
    glog.setLevel(logging.WARNING)          # vlib.load silences the package; this one logger is opened for warnings
    # run the schedule (no final quiesce), stop faults, quiesce, evaluate
    from vlib import runner as RN
    if __import__("os").environ.get("VERIF_TRACE"):
        mons = mons + [O.Tracer()]
    obs, sim = RN.run_case(case, monitors=mons, sim_kwargs={"rng": random.Random(case.get("sim_seed", 0))},
                           keep_sim=True, final_quiesce=False)
    try:
        if obs.harness_error:
            acc.errors.append(obs.harness_error)
            return None, holder
        fp.stop(sim)
        try:
            obs.quiesce_steps.append(sim.quiesce())
            obs.trees = (sim.tree(0), sim.tree(1))
        except S.NotQuiescent as e:
            obs.problems.append(("not_quiescent_after_faults_stopped", str(e)))
        from vlib import load as _load
        obs.unhandled = [u for u in _load.unhandled if u[1] != "Crash"]
        del _load.unhandled[:]
        probs = evaluate_after(case, obs, sim, led, fp)
        k5 = [p for p in probs if p[0] == "K5"]
        probs = [p for p in probs if p[0] != "K5"]
        stacks = [i["stack"] for i in sim.world.injected if "stack" in i]
        # mechanism classifiers by injection site (never by outcome): K18 = fault while SyncState._update_kids queries
        # the provider; K5 = fault inside the filtered-events walk after the provider advanced its cursor
        k18 = any("_update_kids" in st for st in stacks)
        k5site = "f" in case["flavour"] and any("events" in st and ("walk_oid" in st or "_walk" in st) for st in stacks)
        holder.update(k5=len(k5), faults=len(fp.marks), api=fp.api_total, kinds=[m[0] for m in fp.marks], k18=k18,
                      k5site=k5site, k30=bool(gave_up) and bool(fp.marks))
        if count:
            acc.evaluations += 1
            acc.count("engine_steps", sim.steps)
            acc.count("faults_injected", len(fp.marks))
            acc.count("downloads_broken_off_half_way", fp.torn_count)
            acc.count("engine_api_calls", sum(fp.api_total))
            acc.count("notifications_raised", len(sim.raised))
            acc.count("reauth_calls", len(sim.auth_calls))
            for m in fp.marks:
                acc.count("fault_" + m[0])
            for i in sim.world.injected:
                if "stack" in i:
                    acc.add("fault_sites", "%s/%s" % (i.get("op"), i.get("apiarg")))
            acc.add("flavours", case["flavour"])
            acc.add("families", case["family"])
            if fp.marks:
                acc.sigs.add(W.signature(case) + ":%s:%s" % (rate, single))
        return probs, holder
    finally:
        glog.removeHandler(gh)
        glog.setLevel(old_level)
        sim.close()


# ------------------------------------------------------------------------------------------------ permanent failures
def run_perm(seed, index, acc, count=True):
    rng = random.Random("%s:C10perm:%d" % (seed, index))
    g = W.Gen(rng)
    flavour = ("oo", "pp", "po", "op")[index % 4]
    scen = ("locked", "badname")[(index // 4) % 2]
    src = (index // 8) % 2
    dst = 1 - src
    sim = S.Sim(flavour, rng=random.Random(rng.getrandbits(32)))
    probs = []
    try:
        bad = g.names.fresh("p") + ("#x" if scen == "badname" else "")
        others = [g.names.fresh("p") for _ in range(3)]
        data = {n: g.contents.fresh(src) for n in [bad] + others}
        dpath = sim.abspath(dst, bad)
        if scen == "locked":
            sim.providers[dst]._locked_for_test.add(dpath)          # pylint: disable=protected-access
        else:
            sim.providers[dst]._forbidden_chars = ["#"]              # pylint: disable=protected-access
        order = [bad] + others
        rng.shuffle(order)
        for n in order:
            sim.user({"side": src, "op": "create", "path": n, "data": data[n]})
            for _ in range(rng.randrange(0, 3)):
                sim.step(rng.choice(("E0", "E1", "S")))
        # while it keeps failing the others must get through within the cap
        names = ["E0", "E1", "S"]
        used = 0
        while used < S.QCAP:
            rng.shuffle(names)
            for n in names:
                sim.step(n)
                used += 1
            t = sim.tree(dst)
            attempted = any(c["side"] == dst and c["op"] == "create" and c.get("path") == dpath and c.get("exc")
                            for c in sim.world.calls)
            if attempted and all(t.get(n) == ("file", data[n]) for n in others):
                break
        t = sim.tree(dst)
        missing = [n for n in others if t.get(n) != ("file", data[n])]
        if missing:
            probs.append(("failing_file_starved_others", scen, missing))
        if bad in t:
            probs.append(("failing_file_appeared", scen, bad))
        sim.drain_notifications()
        kinds = [n.ntype.value for n in sim.notifications]
        want = "temporary_error" if scen == "locked" else "file_name_error"
        if want not in kinds:
            probs.append(("permanent_failure_not_reported", scen, kinds[:6]))
        # lift
        final = bad
        if scen == "locked":
            sim.providers[dst]._locked_for_test.discard(dpath)      # pylint: disable=protected-access
        else:
            final = g.names.fresh("p")
            sim.user({"side": src, "op": "rename", "path": bad, "to": final})
        sim.quiesce()
        L, R = sim.tree(0), sim.tree(1)
        probs.extend(O.converged_problems(L, R))
        if L.get(final) != ("file", data[bad]) or R.get(final) != ("file", data[bad]):
            probs.append(("not_synchronised_after_lift", scen, O.short(L.get(final)), O.short(R.get(final))))
        if count:
            acc.evaluations += 1
            acc.count("perm_" + scen)
            acc.count("engine_steps", sim.steps)
            acc.sigs.add("perm:%s:%s:%d:%d" % (flavour, scen, src, index // 16))
    except S.NotQuiescent as e:
        probs.append(("not_quiescent_after_lift", scen, str(e)))
    finally:
        sim.close()
    return probs, {"family": "PERM", "flavour": flavour, "scen": scen, "src": src, "index": index, "seed": seed}


def k31_eligible(case):
    """input predicate of finding K31: a user deletes a file and creates a file of the same name again within one window on
    an id-stable side (a new object id at an old path)"""
    from vlib import hazards as H
    for w in H.windows(case["sched"]):
        for side in (0, 1):
            if case["flavour"][side] == "p":
                continue
            gone = set()
            for op in w:
                if op["side"] != side:
                    continue
                if op["op"] == "delete":
                    gone.add(op["path"])
                elif op["op"] == "create" and op["path"] in gone:
                    return True
    return False


def classify(acc, case, probs, h):
    if h.get("k5"):
        acc.known_hit("K5", W.brief_case(case))
    if not probs:
        if h.get("k18"):
            acc.count("k18_site_hit_but_run_passed")
        if h.get("k30"):
            acc.count("k30_site_hit_but_run_passed")
        return
    if h.get("k18"):
        acc.count("failures_attributed_K18")
        acc.known_hit("K18", {"case": W.brief_case(case), "problem": str(probs[0])[:300]})
    elif h.get("k5site"):
        acc.count("failures_attributed_K5")
        acc.known_hit("K5", {"case": W.brief_case(case), "problem": str(probs[0])[:300]})
    elif h.get("faults") and k31_eligible(case) and any("conflicted" in str(q) for q in probs):
        acc.count("failures_attributed_K31")
        acc.known_hit("K31", {"case": W.brief_case(case), "problem": str(probs[0])[:300]})
    elif h.get("k30") and all(str(q[0]).startswith(("unexpected_", "diverged")) for q in probs):
        acc.count("failures_attributed_K30")
        acc.known_hit("K30", {"case": W.brief_case(case), "problem": str(probs[0])[:300]})
    else:
        acc.violation(probs[0][0], probs[:4], case)


def shard(ctx, acc):
    plan = META["plan"][ctx.tier]
    flavours = ("oo", "pp", "po", "op", "of") if ctx.tier == "quick" else F.S.FLAVOURS_ALL
    for i in F.indices(ctx, plan["cases"]):
        case = F.make_case(ctx.seed, PROP, i, flavours=flavours)
        case["rate"] = (0.02, 0.05, 0.10, 0.15)[(i // 7) % 4]
        hz, _ = F.classify(case)
        if hz:
            acc.inconclusive.append("generator bug: main-family case %d has hazard %s" % (i, sorted(hz)))
            continue
        probs, h = run(case, acc)
        if probs is None:
            continue
        acc.sample(dict(W.brief_case(case), fault_rate=case["rate"], faults=h.get("kinds", [])[:8]), cap=3)
        classify(acc, case, probs, h)
    # single-fault enumeration
    for i in F.indices(ctx, plan["enum"]):
        case = F.make_case(ctx.seed, PROP + "enum", i, families=("ONE0", "ONE1", "DISJ"), flavours=("oo", "pp", "po", "op"),
                           nops=(2, 4))
        probs, h = run(case, acc, count=False, rate=0.0)
        if probs is None or probs:
            if probs:
                acc.violation("baseline:" + probs[0][0], probs[:3], case)
            continue
        acc.count("enum_histories")
        for side in (0, 1):
            for k in range(1, h["api"][side] + 1):
                for kind in ("temporary", "disconnected", "token_expired", "outofspace"):
                    probs, hh = run(case, acc, single=(side, k, kind))
                    if probs is None:
                        continue
                    acc.count("enum_runs")
                    c = dict(case)
                    c["single"] = [side, k, kind]
                    classify(acc, c, probs, hh)
    for i in F.indices(ctx, plan["perm"]):
        probs, brief = run_perm(ctx.seed, i, acc)
        if i < 2:
            acc.sample(brief, cap=5)
        if probs:
            acc.violation(probs[0][0], probs[:4], brief)


def conclusive(acc, tier):
    out = []
    if not acc.counters.get("faults_injected"):
        out.append("no fault was injected")
    if not acc.counters.get("notifications_raised"):
        out.append("no notification was observed")
    return out


coverage_extra = E.coverage_extra


def replay(rep):
    case = rep.get("case") or {}
    if case.get("family") == "PERM":
        probs, _ = run_perm(case["seed"], case["index"], Acc(), count=False)
        print(probs[:4])
        return 1 if probs else 0
    hits = 0
    for j in range(6):
        c = dict(case)
        c["sim_seed"] = case.get("sim_seed", 0) + j
        single = tuple(case["single"]) if case.get("single") else None
        probs, _ = run(c, count=False, single=single)
        if probs:
            hits += 1
            if hits == 1:
                print("reproduced:", str(probs[:3])[:1500])
    print("reproduction rate %d/6" % hits)
    return 1 if hits else 0
