"""C01 Two-way convergence and bounded quiescence."""
from vlib import engine_check as E
from vlib import family as F
from vlib import oracles as O
from vlib import probes as P
from vlib import workload as W
from vlib.shard import Acc

PROP = "C01"
META = {
    "level": "exploration",
    "claim": "Held on the executed runs: generated one-sided, disjoint two-sided and same-path conflict histories (4-12 ops) over 5-8 provider flavours and 8 schedule shapes are driven through the real engine one loop iteration at a time; at quiescence both root trees must be equal modulo '.conflicted' names, quiescence must be reached within 3000 steps and no exception may escape a service step. A RENCLASH sub-round (a rename onto a name the other side creates at the same time, no sync step before both events are in) and a NEST sub-round (convergence only) are part of every run. Hazard-seeking histories (1 500 quick, 60 000 thorough) are attributed to listed findings by input predicate or reported.",
    "note": 'Trusted: MockProvider as substrate, the tap wrappers, the tree snapshot through listdir/download. Not reached: histories longer than 12 ops, real network timing, schedules finer than one loop iteration, provider flavours outside the matrix.',
    "technique": 'runtime monitoring: convergence oracle over observed quiescent trees of generated histories x schedules',
    "plan": {"quick": {"shards": 16, "timeout": 600, "cases": 12000, "seek": 1500, "nest": 3000},
             "thorough": {"shards": 32, "timeout": 3000, "cases": 240000, "seek": 60000, "nest": 60000}},
    "rule": "case = (family ONE0/ONE1/DISJ/CONF [+SEEK1/SEEK2/CLASH hazard-seeking, attributed by predicate], flavour, schedule shape, "
            "4-12 user ops) chosen round-robin over the product, details from PRNG(seed, index); executed on the real "
            "engine with one-loop-iteration steps; distinct = distinct signature (family, flavour, shape, ordered "
            "(side, op kind, depth) and step positions); non-trivial = the engine issued >= 1 provider write after the base tree",
    "assumptions": ["MockProvider flavours are the substrate (oo po pp op of [+fo oi io thorough])",
                    "quiescence = two consecutive full rounds E0,E1,S with busy false and no engine write",
                    "bounded progress cap QCAP=3000 steps",
                    "hazard predicates HD/HF/HT/HX delimit known findings K1-K3,K13,K14"],
}


def evaluate(case, obs, sim, monitors):
    probs = list(obs.problems)
    if obs.unhandled:
        probs.append(("exception_escaped_step", obs.unhandled[:2]))
    if obs.trees is not None:
        probs.extend(O.converged_problems(*obs.trees))
    return probs


def run(case, acc=None, count=True):
    return E.run_one(case, acc or Acc(), evaluate, monitors_factory=lambda: [O.IndexMonitor()], count=count)


def shard(ctx, acc):
    plan = META["plan"][ctx.tier]
    flavours = F.S.FLAVOURS_MAIN if ctx.tier == "quick" else F.S.FLAVOURS_ALL
    for i in F.indices(ctx, plan["cases"]):
        case = F.make_case(ctx.seed, PROP, i, flavours=flavours)
        hz, _ = F.classify(case)
        if hz:
            acc.inconclusive.append("generator bug: main-family case %d has hazard %s" % (i, sorted(hz)))
            continue
        probs = run(case, acc)
        if probs is None:
            continue
        acc.sample(W.brief_case(case))
        if probs:
            acc.violation(probs[0][0], probs[:4], case)
    # hazard-seeking families (thorough): failures are attributed by input predicate or reported
    for i in F.indices(ctx, plan.get("seek", 0)):
        case = F.make_case(ctx.seed, PROP + "seek", i, families=("SEEK1", "SEEK2", "CLASH"),
                           flavours=("oo", "po", "pp", "op"), nops=(4, 9))
        hz, ks = F.classify(case)
        probs = run(case, acc)
        if probs is None:
            continue
        acc.count("seek_cases")
        if hz:
            acc.count("seek_cases_with_hazard")
        if probs:
            if ks:
                acc.count("seek_failures_attributed")
                acc.known_hit(ks[0], W.brief_case(case))
            else:
                acc.violation("seek:" + probs[0][0], probs[:4], case)
    # RENCLASH: one side renames a synchronised file to a name the other side gives to a brand-new file in the same window.
    # HF by the letter; measured tolerated (0 of 2 400 on the pinned tree) when no sync step runs before both sides' events
    # are in - shapes burst / intake / starveS; with sync steps in between 1-3 % diverge (K2)
    for i in F.indices(ctx, plan["cases"] // 8):
        case = F.make_case(ctx.seed, PROP + "renclash", i, families=("RENCLASH",), flavours=F.S.FLAVOURS_ALL,
                           shapes=("burst", "intake", "starveS"), nops=(2, 6))
        probs = run(case, acc)
        if probs is None:
            continue
        acc.count("renclash_cases")
        if probs:
            acc.violation("renclash:" + probs[0][0], probs[:4], case)
    # NEST: folder renames / moves on one side racing with content work inside them on the other (id-stable providers);
    # C01 only asks for convergence and bounded quiescence here (C04 decides the exact merge on the same family)
    from vlib import nest as N
    for i in F.indices(ctx, plan.get("nest", 0)):
        case = N.make_case(ctx.seed, i)
        probs, st = N.run_case(case)
        acc.evaluations += 1
        acc.count("nest_cases")
        acc.count("engine_steps", st["steps"])
        acc.count("engine_writes", st["writes"])
        acc.count("user_ops", st["user_ops"])
        if any(str(q[0]).startswith("harness") for q in probs):
            acc.inconclusive.append(str(probs[0])[:200])
            continue
        if st["writes"]:
            acc.sigs.add("nest:%d" % i)
        bad = [q for q in probs if q[0] == "not_quiescent"] + [("diverged",) + tuple(d[1:]) for d in st.get("diverged", [])]
        if bad:
            if N.hd2(case):
                acc.count("nest_failures_attributed_K1")
                acc.known_hit("K1", N.brief(case))
            else:
                acc.violation("nest:" + bad[0][0], bad[:4], case)
    if ctx.shard == 0:
        P.run_probes(PROP, acc, lambda c: run(c, count=False))


def conclusive(acc, tier):
    out = []
    if acc.counters.get("engine_writes", 0) == 0:
        out.append("no engine write was observed")
    return out


coverage_extra = E.coverage_extra
def _replay_one(c):
    if c.get("family") == "NEST":
        from vlib import nest as N
        probs, st = N.run_case(c)
        return [q for q in probs if q[0] == "not_quiescent"] + list(st.get("diverged", []))
    return run(c, count=False)


replay = E.replay_with(_replay_one)
