"""C01 Two-way convergence and bounded quiescence."""
from vlib import family as F
from vlib import oracles as O
from vlib import runner as R
from vlib import workload as W
from vlib import probes as P

META = {
    "level": "exploration",
    "plan": {"quick": {"shards": 16, "timeout": 600, "cases": 12000},
             "thorough": {"shards": 32, "timeout": 3000, "cases": 240000, "seek": 60000}},
    "rule": "case = (family ONE0/ONE1/DISJ/CONF [thorough: +SEEK1/SEEK2/CLASH hazard-seeking], flavour, schedule shape, "
            "4-12 user ops) chosen round-robin over the product, details from PRNG(seed, index); executed on the real "
            "engine with one-loop-iteration steps; distinct = distinct signature (family, flavour, shape, ordered "
            "(side, op kind, depth) and step positions); non-trivial = the engine issued >= 1 provider write after the base tree",
    "assumptions": ["MockProvider flavours are the substrate (oo po pp op of [+fo oi io thorough])",
                    "quiescence = two consecutive full rounds E0,E1,S with busy false and no engine write",
                    "bounded progress cap QCAP=3000 steps", "hazard predicates HD/HF/HT/HX delimit known findings K1-K3,K13,K14"],
}


def evaluate(case, obs):
    probs = []
    for p in obs.problems:
        probs.append(p)
    if obs.unhandled:
        probs.append(("exception_escaped_step", obs.unhandled[:2]))
    if obs.trees is not None:
        probs.extend(O.converged_problems(*obs.trees))
    return probs


def run_one(case, acc, main=True):
    idx = O.IndexMonitor()
    obs, sim = R.run_case(case, monitors=[idx], sim_kwargs={"rng": __import__("random").Random(case.get("sim_seed", 0))},
                          keep_sim=True)
    try:
        acc.evaluations += 1
        if obs.harness_error:
            acc.errors.append(obs.harness_error)
            return None
        writes = len(O.engine_writes(sim, since=getattr(sim.world, "calls_base", 0)))
        acc.count("engine_steps", obs.steps_total)
        acc.count("engine_writes", writes)
        acc.count("user_ops", len(obs.user))
        acc.count("index_walks", idx.walks)
        acc.maxi("max_steps_to_quiescence", max(obs.quiesce_steps) if obs.quiesce_steps else None)
        acc.add("flavours", case["flavour"])
        acc.add("families", case["family"])
        acc.add("shapes", case["shape"])
        if writes:
            acc.sigs.add(W.signature(case))
        import hashlib
        seqh = hashlib.blake2b(repr([(c["side"], c["op"]) for c in sim.world.calls if c["op"] in ("create", "upload", "rename", "delete", "mkdir")]).encode(), digest_size=8).hexdigest()
        acc.sets["engine_call_sequences"].add(seqh)
        for o in obs.user:
            acc.count("op_" + o["op"])
        return evaluate(case, obs)
    finally:
        sim.close()


def shard(ctx, acc):
    plan = META["plan"][ctx.tier]
    flavours = F.S.FLAVOURS_MAIN if ctx.tier == "quick" else F.S.FLAVOURS_ALL
    for i in F.indices(ctx, plan["cases"]):
        case = F.make_case(ctx.seed, "C01", i, flavours=flavours)
        hz, _ = F.classify(case)
        if hz:
            acc.inconclusive.append("generator bug: main-family case %d has hazard %s" % (i, sorted(hz)))
            continue
        probs = run_one(case, acc)
        if probs is None:
            continue
        acc.sample(W.brief_case(case))
        if probs:
            acc.violation(probs[0][0], probs[:4], case)
    # hazard-seeking families (thorough): failures are attributed by input predicate or reported
    for i in F.indices(ctx, plan.get("seek", 0)):
        case = F.make_case(ctx.seed, "C01seek", i, families=("SEEK1", "SEEK2", "CLASH"), flavours=("oo", "po", "pp", "op"),
                           nops=(4, 9))
        hz, ks = F.classify(case)
        probs = run_one(case, acc)
        if probs is None:
            continue
        acc.count("seek_cases")
        if hz:
            acc.count("seek_cases_with_hazard")
        if probs:
            if ks:
                acc.count("seek_failures_attributed")
                acc.known_hit(ks[0], W.brief_case(case))
            else:
                acc.violation("seek:" + probs[0][0], probs[:4], case)
    if ctx.shard == 0:
        from vlib.shard import Acc
        P.run_probes("C01", acc, lambda c: run_one(c, Acc()))


def conclusive(acc, tier):
    out = []
    if acc.counters.get("engine_writes", 0) == 0:
        out.append("no engine write was observed")
    if acc.counters.get("index_walks", 0) == 0:
        out.append("state walker never ran")
    return out


def coverage_extra(acc, tier):
    return {"distinct_engine_call_sequences": len(acc.sets.get("engine_call_sequences", ())),
            "vocab": {k: sorted(v)[:60] for k, v in sorted(acc.sets.items()) if k != "engine_call_sequences"}}


def replay(rep):
    case = rep.get("case")
    if not case:
        print("replay file carries no case")
        return 2
    from vlib.shard import Acc
    hits = 0
    n = 10
    for k in range(n):
        case["sim_seed"] = case.get("sim_seed", 0) + k
        probs = run_one(case, Acc())
        if probs:
            hits += 1
            if hits == 1:
                print("reproduced:", probs[:3])
    print("reproduction rate %d/%d" % (hits, n))
    return 1 if hits else 0
