"""C16 Offline-runnable providers honour the provider contract the engine relies on."""
import io
import os
import random
import shutil
import tempfile
import time

from vlib import load as _load

PROP = "C16"
META = {
    "level": "exploration",
    "engine": "component",
    "claim": "Held on the executed sequences: MockProvider (id-style and path-style ids, case-sensitive and -insensitive) and FileSystemProvider on a fresh temporary directory are driven in lock-step with a reference tree model by random sequences of create / mkdir / upload / rename / delete / download / info / listing / exists calls over names with case variants, unicode, dots and spaces and contents of 0 B, <1 KiB, 1-2 KiB, 2 KiB+1 and 64 KiB; results, listings and error classes (exists / not found / not empty) must agree with the model (where the contract is silent a set of outcomes is accepted), ids must be stable across rename (id style) or equal the normalised path (path style), info.hash must equal hash_data of the same bytes and distinguish different bytes, every successful mutation must be reported by the event stream with the right id and existence, and connecting with a different identity must be refused.",
    "note": "Trusted: the tree model, written from provider.py docstrings and what tests/test_provider.py asserts. Filesystem events arrive from inotify threads: the event clause polls up to 3 s, reports 'inconclusive' if nothing at all arrives, and is judged as a rate over the run (more than 2 % of mutations unreported = violation) because watchdog itself loses a few events of freshly created directories.  The mock with path ids AND case-insensitivity is itself incoherent (finding K10): its sequences are run and attributed by flavour. Network providers (dropbox, box, gdrive, onedrive) are not offline-runnable.",
    "technique": "runtime monitoring: model-based lock-step checking of provider API sequences + hash and event-stream oracles",
    "plan": {"quick": {"shards": 16, "timeout": 600, "seqs": 6400, "fs": 960},
             "thorough": {"shards": 32, "timeout": 3000, "seqs": 200000, "fs": 6000}},
    "rule": "evaluation = one sequence of 15-40 API calls on one provider flavour; distinct = distinct (flavour, sequence "
            "index); non-trivial = >= 3 successful mutations",
    "assumptions": ["inotify available for the filesystem event clause (else that clause is inconclusive)", "after a directory appears the harness waits 30 ms before acting inside it: watchdog (third party) installs the inotify watch of a new directory asynchronously and misses faster activity"],
}

NAMES = ("a", "A", "b", "é.txt", "a.b", "c d", "B")
SIZES = (0, 100, 1500, 1500, 2049, 3000, 65536)
EXISTS, NOTFOUND = "CloudFileExistsError", "CloudFileNotFoundError"


def content(rng, n, big=False):
    size = rng.choice(SIZES if not big else (0, 100, 1500, 1500, 2049, 3000, 3000, 65536))
    if not size:
        return b""
    if size > 2048 and (big or rng.random() < 0.85):
        # same first and last KiB, different middle: only a full-content hash tells such files apart
        mid = (b"%d:" % n + bytes(rng.getrandbits(8) for _ in range(8)) + b"m" * size)[:size - 2048]
        return b"H" * 1024 + mid + b"T" * 1024
    if 1024 < size <= 2048 and rng.random() < 0.7:
        # between 1 and 2 KiB: same first KiB, the difference lies behind it (a sampled hash must still see it)
        return b"H" * 1024 + (b"%d:" % n + bytes(rng.getrandbits(8) for _ in range(8)) + b"t" * size)[:size - 1024]
    return (b"%d:" % n + bytes(rng.getrandbits(8) for _ in range(8)) + b"x" * size)[:size]


class TreeModel:
    """path (normalised, provider-relative) -> {'type', 'data', 'id'}"""

    def __init__(self, norm, id_style):
        self.norm = norm
        self.id_style = id_style        # 'oid' | 'path'
        self.t = {}

    def kids(self, p):
        return [k for k in self.t if k.startswith(p + "/")]

    def parent(self, p):
        return p.rsplit("/", 1)[0]

    def parent_state(self, p):
        par = self.parent(p)
        if par == "":
            return "dir"
        if par in self.t:
            return self.t[par]["type"]
        # some ancestor is a file?
        a = par
        while a:
            if a in self.t and self.t[a]["type"] == "file":
                return "under-file"
            a = self.parent(a)
        return "missing"


class Driver:
    """wraps a provider so that model paths ('/x/y') map to provider paths and ids"""

    def __init__(self, kind, oid_is_path=False, case_sensitive=True, scratch=None):
        self.kind = kind
        self.tmp = None
        if kind == "fs":
            from cloudsync.providers.filesystem import FileSystemProvider
            self.tmp = tempfile.mkdtemp(prefix="verif-c16-", dir=scratch)
            p = FileSystemProvider()
            p.namespace_id = self.tmp
            p.connect({})
            self.id_style = "path"
            self.cs = p.case_sensitive
        else:
            from cloudsync.providers.mock import MockProvider
            p = MockProvider(oid_is_path, case_sensitive)
            p.connect({"key": "val"})
            self.id_style = "path" if oid_is_path else "oid"
            self.cs = case_sensitive
        self.p = p

    def close(self):
        try:
            self.p.disconnect()
        except Exception:       # noqa
            pass
        if self.tmp:
            shutil.rmtree(self.tmp, ignore_errors=True)

    def expected_path_id(self, path):
        if self.kind == "fs":
            return self.p.normalize_path(self.p.join(self.p.namespace_id, path))
        return path


def run_sequence(drv, rng, nops, check_events=True):
    import cloudsync
    p = drv.p
    norm = p.normalize_path
    m = TreeModel(norm, drv.id_style)
    probs = []
    ids = {}                    # model key -> provider id
    dead_ids = []
    vacated = []                # model paths of deleted / renamed-away files
    muts = []                   # (step, oid, exists)
    evlog = []                  # (step, oid, exists)
    n_ok = 0
    counter = [0]

    def key(path):
        return norm(path)

    def allpaths():
        out = []
        for a in NAMES:
            out.append("/" + a)
            for b in NAMES[:4]:
                out.append("/" + a + "/" + b)
                out.append("/" + a + "/" + b + "/" + NAMES[0])
        return out
    paths = allpaths()

    def drain(step):
        try:
            for ev in p.events():
                evlog.append((step, ev.oid, ev.exists, getattr(ev, "prior_oid", None)))
        except Exception as e:      # noqa
            probs.append(("events() raised", type(e).__name__, str(e)[:100]))

    def call(fn, *a):
        try:
            return ("ok", fn(*a))
        except cloudsync.CloudException as e:
            return (type(e).__name__, None)

    def expect(op, got, allowed, detail):
        if got not in allowed:
            probs.append(("%s: outcome %s not in %s" % (op, got, sorted(allowed)), detail))
            return False
        return True

    for step in range(nops):
        if probs:
            break
        op = rng.choice(("create", "create", "mkdir", "mkdir", "upload", "rename", "rename", "delete", "delete", "download",
                         "info", "listdir", "exists"))
        path = rng.choice(paths)
        if rng.random() < 0.8:
            # mostly act where something can happen: directly below the root or below an existing folder
            dirs = [""] + [kk for kk, v in m.t.items() if v["type"] == "dir" and kk.count("/") < 3]
            path = rng.choice(dirs) + "/" + rng.choice(NAMES)
        if op == "rename" and vacated and rng.random() < 0.7:
            path = rng.choice(vacated)      # move something onto a path that was vacated earlier (stale per-path caches)
        k = key(path)
        ent = m.t.get(k)
        if op == "create":
            counter[0] += 1
            data = content(rng, counter[0], drv.kind == "fs")
            st, info = call(p.create, path, io.BytesIO(data))
            ps = m.parent_state(k)
            if ent is not None:
                allowed = {EXISTS}
            elif ps == "dir":
                allowed = {"ok"}
            elif ps == "file":
                allowed = {EXISTS}
            elif ps == "under-file":
                allowed = {EXISTS, NOTFOUND}
            else:
                allowed = {NOTFOUND}
            if expect(op, st, allowed, path) and st == "ok":
                m.t[k] = {"type": "file", "data": data}
                ids[k] = info.oid
                muts.append((step, info.oid, True))
                n_ok += 1
                if drv.id_style == "path" and norm(info.oid) != norm(drv.expected_path_id(path)):
                    probs.append(("path-style id is not the normalised path", info.oid, drv.expected_path_id(path)))
                h = p.hash_data(io.BytesIO(data))
                if info.hash != h:
                    probs.append(("info.hash != hash_data(same bytes)", path, len(data)))
        elif op == "mkdir":
            st, oid = call(p.mkdir, path)
            ps = m.parent_state(k)
            if ent is not None and ent["type"] == "dir":
                allowed = {"ok"}
            elif ent is not None:
                allowed = {EXISTS}
            elif ps == "dir":
                allowed = {"ok"}
            elif ps == "file":
                allowed = {EXISTS}
            elif ps == "under-file":
                allowed = {EXISTS, NOTFOUND}
            else:
                allowed = {NOTFOUND}
            if expect(op, st, allowed, path) and st == "ok":
                if ent is None:
                    m.t[k] = {"type": "dir", "data": None}
                    ids[k] = oid
                    muts.append((step, oid, True))
                    n_ok += 1
                    if drv.kind == "fs":
                        time.sleep(0.03)    # watchdog adds the inotify watch of a new directory asynchronously
                elif oid != ids[k]:
                    probs.append(("mkdir of an existing folder returned another id", path, oid, ids[k]))
        elif op in ("upload", "download", "delete"):
            use_dead = dead_ids and rng.random() < 0.15
            if use_dead:
                oid = rng.choice(dead_ids)
                k2 = None
                for kk, v in ids.items():
                    if v == oid and kk in m.t:
                        k2 = kk             # path-style: the "dead" id is a path that is occupied again
                ent2 = m.t.get(k2) if k2 else None
            else:
                cands = [kk for kk in m.t]
                if not cands:
                    continue
                k2 = rng.choice(cands)
                oid = ids[k2]
                ent2 = m.t[k2]
            if op == "upload":
                counter[0] += 1
                data = content(rng, counter[0], drv.kind == "fs")
                st, info = call(p.upload, oid, io.BytesIO(data))
                allowed = {NOTFOUND} if ent2 is None else ({EXISTS} if ent2["type"] == "dir" else {"ok"})
                if ent2 is None and drv.id_style == "path":
                    allowed = {NOTFOUND, EXISTS}
                if expect(op, st, allowed, (k2, oid)) and st == "ok":
                    old_data = ent2["data"]
                    ent2["data"] = data
                    muts.append((step, oid, True))
                    n_ok += 1
                    if info.hash != p.hash_data(io.BytesIO(data)):
                        probs.append(("upload: info.hash != hash_data(same bytes)", k2, len(data)))
                    if old_data is not None and old_data != data and info.hash == p.hash_data(io.BytesIO(old_data)):
                        probs.append(("upload: different bytes, same hash as the content they replaced", k2, len(old_data), len(data)))
            elif op == "download":
                buf = io.BytesIO()
                st, _ = call(p.download, oid, buf)
                allowed = {NOTFOUND} if ent2 is None else ({EXISTS} if ent2["type"] == "dir" else {"ok"})
                if ent2 is None and drv.id_style == "path":
                    # a dead path id below something that is a file now: "not a directory" is reported as exists-error
                    allowed = {NOTFOUND, EXISTS}
                if expect(op, st, allowed, (k2, oid)) and st == "ok" and buf.getvalue() != ent2["data"]:
                    probs.append(("download returned other bytes", k2, len(buf.getvalue()), len(ent2["data"])))
            else:
                st, _ = call(p.delete, oid)
                if ent2 is None:
                    allowed = {"ok"}
                elif ent2["type"] == "dir" and m.kids(k2):
                    allowed = {EXISTS}
                else:
                    allowed = {"ok"}
                if expect(op, st, allowed, (k2, oid)) and st == "ok" and ent2 is not None:
                    if ent2["type"] == "file":
                        vacated.append(k2)
                    del m.t[k2]
                    dead_ids.append(oid)
                    muts.append((step, oid, False))
                    n_ok += 1
        elif op == "rename":
            cands = [kk for kk in m.t]
            if not cands:
                continue
            src = rng.choice(cands)
            oid = ids[src]
            dst = k
            if (dst + "/").startswith(src + "/") and dst != src:
                continue                    # a folder into itself: not a provider-level operation
            st, new_oid = call(p.rename, oid, path)
            se = m.t[src]
            de = m.t.get(dst)
            ps = m.parent_state(dst)
            if ps in ("missing",):
                allowed = {NOTFOUND}
            elif ps == "file":
                allowed = {EXISTS}
            elif ps == "under-file":
                allowed = {EXISTS, NOTFOUND}
            elif de is None or dst == src:
                allowed = {"ok"}
            elif de["type"] != se["type"]:
                allowed = {EXISTS}
            elif de["type"] == "file":
                allowed = {EXISTS}
            elif m.kids(dst):
                allowed = {EXISTS}
            else:
                allowed = {"ok"}            # folder over an empty folder
            if expect(op, st, allowed, (src, path)) and st == "ok" and dst != src:
                moved = [src] + m.kids(src)
                if de is not None:
                    dead_ids.append(ids[dst])
                    if drv.id_style == "oid":
                        # the empty folder that was replaced is gone: its id must be reported as no longer existing
                        muts.append((step, ids[dst], False))
                        run_sequence.replaced += 1
                    del m.t[dst]
                for old in moved:
                    new = dst + old[len(src):]
                    m.t[new] = m.t.pop(old)
                    old_id = ids.pop(old)
                    if drv.id_style == "oid":
                        ids[new] = old_id
                    else:
                        ids[new] = None     # filled below through info_path
                        dead_ids.append(old_id)
                if drv.id_style == "oid":
                    if new_oid != oid:
                        probs.append(("id changed across rename (id style)", oid, new_oid))
                else:
                    if norm(new_oid) != norm(drv.expected_path_id(path)):
                        probs.append(("path-style id after rename is not the normalised path", new_oid, path))
                    for kk in [x for x in ids if ids[x] is None]:
                        inf = p.info_path(kk)
                        ids[kk] = inf.oid if inf else None
                if se["type"] == "file":
                    inf2 = p.info_oid(new_oid)
                    if inf2 is None or inf2.hash != p.hash_data(io.BytesIO(se["data"])):
                        probs.append(("after rename: info.hash != hash_data(the moved bytes)", src, path, len(se["data"])))
                muts.append((step, new_oid, True))
                if drv.kind == "fs" and se["type"] == "dir":
                    time.sleep(0.03)
                if drv.id_style == "path":
                    muts.append((step, oid, False))         # the old path id is vacated
                n_ok += 1
        elif op == "info":
            inf = p.info_path(path)
            if (inf is None) != (ent is None):
                probs.append(("info_path disagrees with the tree", path, inf is not None, ent is not None))
            elif inf is not None:
                from cloudsync.types import DIRECTORY
                if (inf.otype == DIRECTORY) != (ent["type"] == "dir"):
                    probs.append(("info_path type differs", path))
                if inf.oid != ids[k]:
                    probs.append(("info_path id differs from the id handed out", path, inf.oid, ids[k]))
                io2 = p.info_oid(inf.oid)
                if io2 is None or norm(io2.path) != k:
                    probs.append(("info_oid(info_path(p).oid) does not lead back", path, io2.path if io2 else None))
                if ent["type"] == "file" and inf.hash != p.hash_data(io.BytesIO(ent["data"])):
                    probs.append(("info.hash != hash_data(model bytes)", path, len(ent["data"])))
        elif op == "listdir":
            dirs = [kk for kk, v in m.t.items() if v["type"] == "dir"]
            if not dirs:
                continue
            d = rng.choice(dirs)
            got = sorted(norm("/" + x.name).lstrip("/") for x in p.listdir(ids[d]))
            want = sorted(kk[len(d) + 1:] for kk in m.t if kk.startswith(d + "/") and "/" not in kk[len(d) + 1:])
            if got != want:
                probs.append(("listdir differs", d, got, want))
        elif op == "exists":
            if p.exists_path(path) != (ent is not None):
                probs.append(("exists_path disagrees", path))
            if ent is not None and not p.exists_oid(ids[k]):
                probs.append(("exists_oid false for a live id", path))
        drain(step)
    # hashes of different bytes differ
    files = [(kk, v) for kk, v in m.t.items() if v["type"] == "file"]
    seen = {}
    for kk, v in files:
        inf = p.info_path(kk)
        if inf is None:
            continue
        hk = repr(inf.hash)
        if hk in seen and seen[hk] != v["data"]:
            probs.append(("different bytes, same hash", kk))
        seen[hk] = v["data"]
    ev_inconclusive = False
    ev_missing = 0
    if check_events and not probs and muts:
        deadline = time.time() + (3.0 if drv.kind == "fs" else 0)
        while True:
            drain(nops)
            missing = []
            last = {}
            for (st_, oid, ex_) in muts:
                last[norm_id(drv, oid)] = st_
            for (st_, oid, ex_) in muts:
                nid = norm_id(drv, oid)
                # events are translated when they are delivered: an earlier mutation of an object that changed again
                # later may be reported with the later existence; only the last mutation of an id must match exactly
                exact = last[nid] == st_
                if not any(e[0] >= st_ and ((norm_id(drv, e[1]) == nid and (not exact or bool(e[2]) == ex_))
                                            or (not ex_ and norm_id(drv, e[3]) == nid)) for e in evlog):
                    missing.append((st_, oid, ex_))
            if not missing or time.time() >= deadline:
                break
            time.sleep(0.02)
        if missing:
            if drv.kind == "fs" and not evlog:
                ev_inconclusive = True
            elif drv.kind == "fs":
                # watchdog (third party) loses inotify events of a directory that has just appeared; single misses are
                # counted and judged as a rate over the whole run (props.c16.post), not per sequence
                ev_missing = len(missing)
            else:
                probs.append(("mutation never reported by the event stream", missing[:3], len(evlog)))
    run_sequence.last_replaced = run_sequence.replaced
    run_sequence.replaced = 0
    run_sequence.last_missing = ev_missing if drv.kind == "fs" else 0
    run_sequence.last_muts = len(muts)
    return probs, n_ok, len(evlog), ev_inconclusive


run_sequence.replaced = 0


def norm_id(drv, oid):
    if oid is None:
        return None
    return drv.p.normalize_path(oid) if drv.id_style == "path" else oid


def identity_check():
    """connecting with credentials of a different identity is refused"""
    import cloudsync
    from cloudsync.providers.mock import MockProvider

    class IdProv(MockProvider):
        def connect_impl(self, creds):
            MockProvider.connect_impl(self, creds)
            return creds["id"]
    p = IdProv(False, True)
    p.connect({"id": "alice"})
    p.disconnect()
    try:
        p.connect({"id": "alice"})
    except cloudsync.CloudException:
        return [("same identity refused on reconnect",)]
    p.disconnect()
    try:
        p.connect({"id": "bob"})
        return [("different identity accepted", p.connection_id)]
    except cloudsync.CloudTokenError:
        if p.connected:
            return [("provider left connected after refusing a different identity",)]
    return []


FLAVS = (("mock", False, True), ("mock", False, False), ("mock", True, True))


def shard(ctx, acc):
    _load.load()
    plan = META["plan"][ctx.tier]
    scratch = _load.scratch_dir()
    for j in range(ctx.shard, plan["seqs"], ctx.nshards):
        fl = FLAVS[(j // ctx.nshards) % len(FLAVS)]
        rng = random.Random("%s:c16:%d" % (ctx.seed, j))
        drv = Driver(*fl)
        try:
            probs, n_ok, nev, _ = run_sequence(drv, rng, rng.randrange(15, 41))
        finally:
            drv.close()
        acc.evaluations += 1
        acc.count("sequences_mock")
        acc.count("folder_renamed_over_an_empty_folder", run_sequence.last_replaced)
        acc.count("successful_mutations", n_ok)
        acc.count("events_seen", nev)
        acc.add("flavours", "mock oid_is_path=%s case_sensitive=%s" % fl[1:])
        if n_ok >= 3:
            acc.sigs.add("m:%d" % j)
        if probs:
            acc.violation(probs[0][0], probs[:2], {"family": "SEQ", "flavour": list(fl), "j": j, "seed": ctx.seed})
    for j in range(ctx.shard, plan["fs"], ctx.nshards):
        rng = random.Random("%s:c16fs:%d" % (ctx.seed, j))
        drv = Driver("fs", scratch=scratch)
        try:
            probs, n_ok, nev, inc = run_sequence(drv, rng, rng.randrange(15, 41))
        finally:
            drv.close()
        acc.evaluations += 1
        acc.count("sequences_filesystem")
        acc.count("fs_mutations_expected_in_event_stream", run_sequence.last_muts)
        acc.count("fs_mutations_missing_from_event_stream", run_sequence.last_missing)
        acc.count("successful_mutations", n_ok)
        acc.count("events_seen_filesystem", nev)
        acc.add("flavours", "filesystem case_sensitive=%s" % drv.cs)
        if inc:
            acc.count("fs_event_clause_inconclusive")
        if n_ok >= 3:
            acc.sigs.add("f:%d" % j)
        if j < 1:
            acc.sample({"provider": "filesystem", "calls": "random 15-40 of create/mkdir/upload/rename/delete/download/info/listdir/exists",
                        "names": list(NAMES), "sizes": list(SIZES)})
        if probs:
            acc.violation(probs[0][0], probs[:2], {"family": "SEQ", "flavour": ["fs"], "j": j, "seed": ctx.seed})
    # finding K10: the mock with path ids AND case-insensitivity is itself incoherent; attributed by flavour (input)
    bad = 0
    for j in range(ctx.shard, 480, ctx.nshards):
        drv = Driver("mock", True, False)
        try:
            probs, _, _, _ = run_sequence(drv, random.Random("%s:k10:%d" % (ctx.seed, j)), 30)
        except Exception:       # noqa
            probs = [("exception",)]
        finally:
            drv.close()
        acc.count("sequences_mock_path_ci")
        bad += 1 if probs else 0
    if bad:
        acc.known_hit("K10", {"flavour": "mock oid_is_path=True case_sensitive=False", "diverging_sequences": bad})
    if ctx.shard == 0:
        for pr in identity_check():
            acc.violation(pr[0], [pr], {"family": "IDENTITY"})
        acc.count("identity_checks")


def post(acc):
    """filesystem event clause, judged as a rate: a provider-side defect (e.g. mis-translated events) loses nearly
    every event; watchdog's own races with freshly created directories lose well under 0.5 %"""
    tot = acc.counters.get("fs_mutations_expected_in_event_stream", 0)
    miss = acc.counters.get("fs_mutations_missing_from_event_stream", 0)
    if tot and miss > max(5, 0.02 * tot):
        acc.violation("filesystem mutations missing from the event stream", ["%d of %d" % (miss, tot)], {"family": "FSEVENTS"})


def conclusive(acc, tier):
    out = []
    if not acc.counters.get("sequences_mock"):
        out.append("no mock sequence ran")
    if not acc.counters.get("sequences_filesystem"):
        out.append("no filesystem sequence ran")
    if acc.counters.get("sequences_filesystem") and not acc.counters.get("events_seen_filesystem"):
        out.append("filesystem provider delivered no event at all (inotify unavailable?): event clause undecided")
    return out


def replay(rep):
    _load.load()
    c = rep.get("case") or {}
    if c.get("family") == "SEQ":
        fl = c["flavour"]
        hits = 0
        for k in range(3):
            if fl[0] == "fs":
                drv = Driver("fs", scratch=_load.scratch_dir())
                rng = random.Random("%s:c16fs:%d" % (c["seed"], c["j"]))
            else:
                drv = Driver(*fl)
                rng = random.Random("%s:c16:%d" % (c["seed"], c["j"]))
            try:
                probs, _, _, _ = run_sequence(drv, rng, rng.randrange(15, 41))
            finally:
                drv.close()
            if probs:
                hits += 1
                if hits == 1:
                    print(probs[:2])
        print("reproduction rate %d/3" % hits)
        return 1 if hits else 0
    print(identity_check())
    return 2
