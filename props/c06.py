"""C06 Restart resumes from persisted state; offline changes are synchronised; cursor never skips; walk fallback."""
import random

from vlib import engine_check as E
from vlib import family as F
from vlib import oracles as O
from vlib import sim as S
from vlib import workload as W
from vlib.runner import Monitor
from vlib.shard import Acc

PROP = "C06"
META = {
    "level": "exploration",
    "claim": "Held on the executed runs: generated histories with 1-3 restarts inserted at arbitrary step boundaries (mid-sync, with operations performed while stopped; MockStorage and SqliteStorage closed and reopened; storage intact, cursor rows removed, cursor replaced by a value the provider rejects) end, after the last restart and quiescence, in the state the family's oracle demands (exact mirror / exact merge / convergence with no content lost); no upload re-sends bytes the destination already holds, no '.conflicted' artefact appears in conflict-free families, and the persisted cursor never runs ahead of an event handed to the engine but not yet processed.",
    "note": "Trusted: the suite's way of restarting (same provider instances, same storage). With a rejected cursor the statement promises only creations and modifications, so histories with deletes/renames are held to containment (every object of the users' final trees exists with its content on both sides), not equality.",
    "technique": "runtime monitoring: restart injection at step boundaries + family oracles + re-transfer call ledger + cursor-ordering monitor at the storage boundary",
    "plan": {"quick": {"shards": 16, "timeout": 600, "cases": 9000},
             "thorough": {"shards": 32, "timeout": 3000, "cases": 250000}},
    "rule": "case = main-family case (ONE/DISJ/CONF x flavour x shape) with 1-3 restart entries inserted at random schedule "
            "positions, restart mode round-robin over intact/nocursor/badcursor, storage every 5th case SQLite; distinct = "
            "distinct signature incl. restart positions and modes; non-trivial = >= 1 engine write after a restart or >= 1 "
            "user op while stopped",
    "assumptions": ["restart = abandon the engine object without done(), build a new CloudSync over the same providers and storage"],
}


class RestartWatch(Monitor):
    """Remembers, at every stop, which files were *settled*: stored row not pending with hash == sync marker on both
    sides, byte-identical on both providers, and no provider event about the object beyond the stored cursor."""

    def __init__(self):
        self.after = []             # index into world.calls at each restart
        self.modes = []
        self.settled = {}           # (side, abs path) -> bytes, for files settled at the latest stop
        self.settled_seen = 0

    def before_restart(self, sim, mode):
        self.settled = {}
        if sim.storage is None:
            return
        st = sim.state
        rows = sim._inner_storage.read_all()                    # pylint: disable=protected-access
        tag = st._tag                                           # pylint: disable=protected-access
        # stored cursors per side
        pending_oids = [set(), set()]
        for side in (0, 1):
            p = sim.providers[side]
            cur = None
            for t, r in rows.items():
                if "_cursor" in t and p.name in t and (":%s:" % p.connection_id) in t:
                    for v in r.values():
                        if isinstance(v, int):
                            cur = v
            evs = p._events                                     # pylint: disable=protected-access
            start = 0 if cur is None else cur + 1
            for pe in evs[start:]:
                d = pe.serialize()
                pending_oids[side].add(d["id"])
                if d.get("prior_oid"):
                    pending_oids[side].add(d["prior_oid"])
        for eid, b in rows.get(tag, {}).items():
            r = O.decode_row(b)
            s0, s1 = r["side0"], r["side1"]
            if r["ignored"] != "none" or s0["otype"] != "file":
                continue
            ok = all(s["oid"] is not None and s["exists"] == "exists" and not s["pending"] and s["hash"] is not None
                     and s["hash"] == s["sync_hash"] for s in (s0, s1))
            if not ok or s0["oid"] in pending_oids[0] or s1["oid"] in pending_oids[1]:
                continue
            b0, b1 = sim.taps[0].bytes_of(s0["oid"]), sim.taps[1].bytes_of(s1["oid"])
            if b0 is None or b0 != b1:
                continue
            self.settled[(0, s0["oid"])] = b0
            self.settled[(1, s1["oid"])] = b0
        self.settled_seen += len(self.settled) // 2

    def after_user(self, sim, rec):
        # a user touching a settled object un-settles it
        if rec.get("oid") is not None:
            self.settled.pop((rec["side"], rec["oid"]), None)
            self.settled.pop((rec["side"], rec.get("new_oid")), None)

    def after_restart(self, sim, mode):
        self.after.append(len(sim.world.calls))
        self.modes.append(mode)
        self._n = len(sim.world.calls)
        self.retransfers = getattr(self, "retransfers", [])

    def after_step(self, sim, name):
        if not self.after:
            return
        for c in sim.world.calls[getattr(self, "_n", 0):]:
            if c["op"] == "upload" and c.get("ok") and self.settled.get((c["side"], c.get("oid"))) is not None \
                    and c.get("data") == self.settled[(c["side"], c["oid"])] and c.get("victim") == c.get("data"):
                self.retransfers.append(O.brief_call(c))
            if c["op"] == "create" and c.get("data") is not None and c.get("data") in self.settled.values() \
                    and (c.get("ok") or c.get("exc") == "CloudFileExistsError"):
                # a settled file's bytes created again somewhere (duplicate) -- only if both copies are still in place
                pass
        self._n = len(sim.world.calls)


def with_restarts(case, rng, mode):
    sched = list(case["sched"])
    n = rng.choice((1, 1, 2, 3))
    for _ in range(n):
        pos = rng.randrange(0, len(sched) + 1)
        sched.insert(pos, ["R", mode])
        if rng.random() < 0.5 and mode in ("intact", "clean"):
            # the application looked at CloudSync.busy just before it stopped the engine (busy takes an event from each
            # provider into memory).  Only with a usable cursor: without one the statement promises creations and
            # modifications only, and the event taken into memory may be a deletion
            sched.insert(pos, ["B"])
    case = dict(case)
    case["sched"] = sched
    case["rmode"] = mode
    return case


def final_user_trees(case):
    """dict model of each side's users' final tree is only defined for ONE/DISJ (case['expect'])."""
    return case.get("expect")


def evaluate(case, obs, sim, monitors):
    led, cur, rw = monitors[:3]
    probs = list(obs.problems)
    if obs.unhandled:
        probs.append(("exception_escaped_step", obs.unhandled[:2]))
    if cur.problems:
        probs.append(cur.problems[0])
    if obs.trees is None:
        return probs
    L, R = obs.trees
    mode = case.get("rmode", "intact")
    fam = case["family"]
    expect = case.get("expect")
    only_add = all(e[1]["op"] in ("create", "mkdir", "write") for e in case["sched"] if e[0] == "U")
    if mode == "badcursor" and not only_add:
        # walk fallback: creations and modifications must reach the other side (containment)
        want = expect if expect is not None else None
        if want is not None:
            for k, v in want.items():
                v = tuple(v)
                for label, t in (("local", L), ("remote", R)):
                    if t.get(k) != v:
                        probs.append(("walk_fallback_missed_object", label, k, O.short(t.get(k)), "expected " + str(O.short(v))))
        lost = led.lost(L, R)
        if lost:
            probs.append(("content_lost", lost[:3]))
    else:
        if expect is not None:
            probs.extend(O.exact_problems(L, expect, "local_tree"))
            probs.extend(O.exact_problems(R, expect, "remote_tree"))
            cp = O.conflicted_paths(L, R)
            if cp:
                probs.append(("conflicted_artefact_after_restart", cp[:3]))
        else:
            probs.extend(O.converged_problems(L, R))
            lost = led.lost(L, R)
            if lost:
                probs.append(("content_lost", lost[:3]))
    # re-transfer: after a restart, an upload of a file that was settled at the stop (synced, nothing pending about it)
    if getattr(rw, "retransfers", None):
        probs.append(("retransfer_of_settled_file", rw.retransfers[:2]))
    return probs


def run(case, acc=None, count=True):
    acc = acc or Acc()
    mons = []
    storage = "sqlite" if case.get("index", 0) % 5 == 2 else "mock"

    def fac():
        mons[:] = [O.ContentLedger(), O.CursorMonitor(), RestartWatch()]
        return mons
    probs = E.run_one(case, acc, evaluate, monitors_factory=fac, sim_kwargs={"storage": storage}, count=count)
    if count and mons:
        acc.count("restarts", len(mons[2].after))
        acc.count("settled_files_watched", mons[2].settled_seen)
        acc.count("cursor_writes_checked", mons[1].cursor_writes)
        acc.count("restarts_cursor_checked", mons[1].checked_restarts)
        acc.add("restart_modes", case.get("rmode"))
        acc.add("storage_backends", storage)
    return probs


def outage_case(seed, i, flavours, rng):
    """OUTAGE: a synchronised phase (every op followed by quiescence, so deletions are fully recorded), a stop, then
    operations performed while stopped -- among them re-creations of names deleted before -- and a restart in one of
    the three storage modes."""
    g = W.Gen(rng)
    side = rng.randrange(2)
    flavour = flavours[(i // 3) % len(flavours)]
    mode = ("nocursor", "badcursor", "intact")[(i // (3 * len(flavours))) % 3]
    base, m = g.base_tree(side, rng.choice((2, 4, 6)))
    g._norename, g._chain, g._pathid_sides = set(), set(), {k for k in (0, 1) if flavour[k] == "p"}    # pylint: disable=protected-access
    renamed, deleted = set(), set()
    sched = []
    w1 = {"create": 3, "write": 2, "rename": 1, "delete": 5, "mkdir": 1, "rmdir": 1, "rendir": 1, "recreate": 1}
    for _ in range(rng.randrange(2, 6)):
        sched.append(["U", g.gen_op(m, side, None, w1, renamed, deleted)])
        sched.append(["Q"])
        g._chain = set()                                                                                # pylint: disable=protected-access
    sched.append(["R", mode])
    for _ in range(rng.randrange(1, 5)):
        sched.append(["U", g.gen_op(m, side, None, RECREATE, renamed, deleted)])
    for _ in range(rng.randrange(0, 4)):
        sched.append([rng.choice(W.STEPS)])
    case = {"family": "ONE%d" % side, "flavour": flavour, "shape": "outage", "base": base, "base_side": side, "sched": sched,
            "expect": m.t, "index": i, "sim_seed": rng.getrandbits(32), "rmode": mode}
    return case


RECREATE = {"create": 3, "write": 2, "rename": 1, "delete": 4, "mkdir": 1, "rmdir": 1, "rendir": 0, "recreate": 6}


def make(seed, i, flavours):
    rng = random.Random("%s:C06r:%d" % (seed, i))
    if i % 3 == 2:
        return outage_case(seed, i, flavours, rng)
    else:
        case = F.make_case(seed, PROP, i, flavours=flavours)
        mode = ("intact", "nocursor", "badcursor", "clean")[(i // 4) % 4]     # clean = final stop with cleanup hooks, intact storage
        if case["family"].startswith("REUSE"):
            # with a lost cursor the engine cannot learn of deletions (the walk reports what exists); taking a vacated name
            # again, possibly with the other type, is then a name clash with the peer's stale object - outside the
            # statement's walk-fallback clause (which speaks of creations and modifications).  Name reuse is exercised
            # across restarts with the cursor intact.
            mode = ("intact", "clean")[(i // 7) % 2]
    return with_restarts(case, rng, mode)


def shard(ctx, acc):
    plan = META["plan"][ctx.tier]
    flavours = F.S.FLAVOURS_MAIN if ctx.tier == "quick" else F.S.FLAVOURS_ALL
    for i in F.indices(ctx, plan["cases"]):
        case = make(ctx.seed, i, flavours)
        hz, _ = F.classify(case)
        if hz:
            acc.inconclusive.append("generator bug: main-family case %d has hazard %s" % (i, sorted(hz)))
            continue
        probs = run(case, acc)
        if probs is None:
            continue
        acc.sample(W.brief_case(case))
        if probs:
            acc.violation(probs[0][0], probs[:4], case)
    # ROOT histories of C12 (objects outside the roots, moves across the boundary, a declined folder) with 1-3 stops at
    # random step boundaries and the cursor intact: what was written off as irrelevant and becomes relevant again must
    # survive the restart (C12's own oracle decides: peer tree = model of the inside operations)
    from props import c12 as C12
    for i in F.indices(ctx, plan["cases"] // 6):
        case = C12.make_case(ctx.seed, i)
        rng = random.Random("%s:C06root:%d" % (ctx.seed, i))
        case = with_restarts(case, rng, "intact")
        case["c12"] = True
        probs = C12.run(case, acc)
        if probs is None:
            continue
        acc.count("root_cases_with_restarts")
        acc.count("restarts", len([e for e in case["sched"] if e[0] == "R"]))
        if probs:
            acc.violation("root:" + probs[0][0], probs[:4], case)


def conclusive(acc, tier):
    out = []
    if not acc.counters.get("restarts"):
        out.append("no restart was executed")
    if not acc.counters.get("cursor_writes_checked"):
        out.append("cursor monitor saw no cursor write")
    return out


coverage_extra = E.coverage_extra
def _replay_one(c):
    if c.get("c12"):
        from props import c12 as C12
        return C12.run(c, count=False)
    return run(c, count=False)


replay = E.replay_with(_replay_one)
