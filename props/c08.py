"""C08 Persisted sync state equals in-memory state; codec round-trip; legacy rows."""
import itertools
import random

import msgpack

from vlib import engine_check as E
from vlib import family as F
from vlib import oracles as O
from vlib import sim as S
from vlib import workload as W
from vlib.shard import Acc

PROP = "C08"
META = {
    "level": "exploration",
    "claim": "Held on the executed runs: after every event-intake and sync step of generated histories (mock and SQLite storage; every tenth history with an application translate that declines a folder one side has created, so that stored entries are written off as irrelevant) the rows stored under the sync's tag decode to exactly the live entries field by field (paths, ids, hashes, sync markers, existence incl. corrupt marker, ignore reason, pending flag), with no stale or missing row and nothing left dirty; a state reloaded from a copy of storage answers id lookups, path lookups and the pending set like the live one; the codec product (hash/id/path/existence/ignore shapes, legacy rows) round-trips.",
    "note": "Trusted: msgpack decoding of rows by the oracle; comparison restricted to the fields the statement lists (priority, temp file and last-gotten stamps are not compared). No faults are injected here (a failing step legitimately leaves uncommitted changes).",
    "technique": "runtime monitoring: storage-vs-memory equality walked after every engine step + reload equivalence + exhaustive-small codec product",
    "plan": {"quick": {"shards": 16, "timeout": 600, "cases": 6000, "codec": 1},
             "thorough": {"shards": 32, "timeout": 3000, "cases": 150000, "codec": 1}},
    "rule": "engine part: main-family cases (ONE/DISJ/CONF x flavour x shape, every 7th on SQLite) compared after every step, "
            "reload equivalence every 5th step; codec part: full product of field shapes per row, loaded through SyncState "
            "and re-serialised; distinct = distinct case signature / distinct codec row; non-trivial = >= 1 engine write / row loads",
    "assumptions": ["no faults injected (C08's quantifier has none)"],
    "exhaustive": False,
}


def evaluate(case, obs, sim, monitors):
    pm = monitors[0]
    probs = []
    if pm.problems:
        probs.append(("persisted_state_differs", pm.problems[:2]))
    return probs


def run(case, acc=None, count=True):
    acc = acc or Acc()
    mons = []
    storage = "sqlite" if case.get("index", 0) % 7 == 3 else "mock"

    def fac():
        mons[:] = [O.PersistMonitor(reload_every=5)]
        return mons
    kw = {"storage": storage}
    if case.get("index", 0) % 10 == 2:
        # every tenth case: the application's translate declines the folder 'private', which one side creates with a file
        # in it first (entries that are stored on intake and written off as irrelevant by a later sync step)
        from props import c12
        kw["translate"] = c12.declining_translate
        side = (case.get("index", 0) // 10) % 2
        case = dict(case)
        case["sched"] = [["U", {"side": side, "op": "mkdir", "path": "private", "obj": 0}],
                         ["U", {"side": side, "op": "create", "path": "private/secret.txt", "data": b"secret", "obj": 0}],
                         ["S"], ["E%d" % side], ["E%d" % side], ["S"], ["S"]] + case["sched"]
        if count:
            acc.count("cases_with_declined_folder")
    probs = E.run_one(case, acc, evaluate, monitors_factory=fac, sim_kwargs=kw, count=count)
    if count and mons:
        acc.count("persist_checks", mons[0].checks)
        acc.count("reload_checks", mons[0].reloads)
        acc.count("entries_compared", mons[0].rows_compared)
        acc.add("storage_backends", storage)
    return probs


# ------------------------------------------------------------------------------------------------- codec product
HASHES = [None, b"\x00\xffraw", "str-hash", 12345, (b"a", ("n", 2)), {"k": b"v", "n": 1}, 1.5, b""]
PATHS = [None, "/local/a.txt", "/löcal/ü/é.txt", "/x/y z/.hidden"]
OIDS = [None, "oid-1", 77]
EXISTS = ["unknown", "exists", "trashed", "missing", "likely-trashed", "corrupt", True, False, None]
SAVED = [None, "exists", "trashed", "missing"]
IGNORED = ["none", "discarded", "conflict", "temp rename", "irrelevant", "trashed"]
CHANGED = [None, 0, 1234.5]
EXP_EXISTS = {True: "exists", False: "trashed", None: "unknown"}
EXP_IGN = {"trashed": "discarded"}


def side_rows(side):
    for h, sh, p, oid, ex_, ch in itertools.product(HASHES, (None, b"sync", "s"), PATHS, OIDS, EXISTS, CHANGED):
        saveds = SAVED if ex_ == "corrupt" else [None]
        for sv in saveds:
            yield {"otype": "file", "side": side, "hash": h, "changed": ch, "sync_hash": sh, "path": p,
                   "sync_path": p, "oid": oid, "exists": ex_, "temp_file": None, "size": 3, "mtime": 1.0,
                   "_saved_exists": sv}


def codec_check(acc, shard, nshards):
    import cloudsync
    from cloudsync import SyncState
    from cloudsync.providers.mock import MockProvider
    provs = (MockProvider(False, True), MockProvider(True, True))
    for p in provs:
        p.connect({"key": "val"})
    probs = []
    n = 0
    base1 = {"otype": "file", "side": 1, "hash": b"h", "changed": None, "sync_hash": b"h", "path": "/remote/r", "sync_path": "/remote/r",
             "oid": "r-oid", "exists": "exists", "temp_file": None, "size": 1, "mtime": 2.0, "_saved_exists": None}
    rows = []
    for i, s0 in enumerate(side_rows(0)):
        if i % nshards != shard:
            continue
        ign = IGNORED[i % len(IGNORED)]
        row = {"side0": s0, "side1": dict(base1, oid="r-oid-%d" % i, path="/remote/r%d" % i, sync_path="/remote/r%d" % i),
               "ignored": ign, "priority": 0}
        if i % 11 == 0:                         # legacy shapes: no size/mtime/_saved_exists/priority, old flags
            for k in ("size", "mtime", "_saved_exists"):
                row["side0"] = {a: b for a, b in row["side0"].items() if a != k}
            del row["priority"]
            if i % 22 == 0:
                del row["ignored"]
                row["discarded"] = True
            elif i % 33 == 0:
                del row["ignored"]
                row["conflicted"] = True
        rows.append(row)
    # load in batches through the real constructor, re-serialise, compare
    B = 400
    for b0 in range(0, len(rows), B):
        chunk = rows[b0:b0 + B]
        d = {"t": {j: msgpack.dumps(r, use_bin_type=True) for j, r in enumerate(chunk)}}
        st = SyncState(provs, S.MockStorage(d), tag="t")
        loaded = {}
        for ent in st._oids[1].values():                # pylint: disable=protected-access
            loaded[ent.storage_id] = ent
        for j, r in enumerate(chunk):
            n += 1
            ent = loaded.get(j)
            if ent is None:
                if j not in d["t"]:
                    probs.append(("legacy_or_valid_row_failed_to_load", str(r)[:300]))
                else:
                    probs.append(("row_not_indexed_after_load", str(r)[:300]))
                continue
            back = msgpack.loads(ent.serialize(), use_list=False, raw=False)
            for sk in ("side0", "side1"):
                for f in ("hash", "sync_hash", "path", "sync_path", "oid"):
                    if back[sk][f] != r[sk][f]:
                        probs.append(("field_altered", sk, f, repr(r[sk][f]), repr(back[sk][f])))
                exp_ex = EXP_EXISTS.get(r[sk]["exists"], r[sk]["exists"]) if not isinstance(r[sk]["exists"], str) else r[sk]["exists"]
                if back[sk]["exists"] != exp_ex:
                    probs.append(("exists_altered", sk, repr(r[sk]["exists"]), back[sk]["exists"]))
                if r[sk]["exists"] == "corrupt" and back[sk]["_saved_exists"] != r[sk].get("_saved_exists"):
                    probs.append(("saved_exists_altered", repr(r[sk].get("_saved_exists")), back[sk]["_saved_exists"]))
                if bool(back[sk]["changed"]) != bool(r[sk]["changed"]):
                    probs.append(("pending_flag_altered", sk, r[sk]["changed"], back[sk]["changed"]))
            if "ignored" in r:
                exp = EXP_IGN.get(r["ignored"], r["ignored"])
            elif r.get("discarded"):
                exp = "discarded"
            elif r.get("conflicted"):
                exp = "conflict"
            else:
                exp = "none"
            if back["ignored"] != exp:
                probs.append(("ignore_reason_altered", r.get("ignored"), back["ignored"]))
            # pending set membership after load
            want = bool((r["side0"]["changed"]) or (r["side1"]["changed"]))
            if (ent in st._changeset_storage) != want:      # pylint: disable=protected-access
                probs.append(("pending_set_after_load", want, str(r["side0"])[:200]))
            if len(probs) > 5:
                break
            acc.sigs.add("codec:%d:%d" % (shard, b0 + j)) if n % 50 == 0 else None
        if len(probs) > 5:
            break
    acc.count("codec_rows", n)
    acc.evaluations += n
    return probs


def run_storage_fault(case, acc, i, count=True):
    from vlib import runner as RN
    rng = random.Random("sf:%s:%d" % (case.get("sim_seed", 0), i))
    storage = "sqlite" if i % 4 == 1 else "mock"
    # size the run first: how many storage writes does the history produce after the base tree?
    holder = {}

    class Arm(RN.Monitor):
        def after_base(self, sim, case_):
            holder["w0"] = sim.storage.writes
            if holder.get("k"):
                sim.storage.fail_at = holder["w0"] + holder["k"]

    obs, sim = RN.run_case(case, monitors=[Arm()], sim_kwargs={"storage": storage, "rng": random.Random(case.get("sim_seed", 0))},
                           keep_sim=True)
    try:
        n = sim.storage.writes - holder.get("w0", 0)
    finally:
        sim.close()
    if obs.harness_error:
        acc.errors.append(obs.harness_error)
        return None
    if n < 2:
        return []
    holder["k"] = rng.randrange(1, n + 1)
    case2 = dict(case)
    side = rng.randrange(2)
    tail = {"side": side, "op": "create", "path": "after-the-failure-%d.txt" % i, "data": b"tail-%d" % i, "obj": None}
    case2["sched"] = list(case["sched"]) + [["Q"], ["U", tail]]
    obs, sim = RN.run_case(case2, monitors=[Arm()], sim_kwargs={"storage": storage, "rng": random.Random(case.get("sim_seed", 0))},
                           keep_sim=True)
    try:
        probs = []
        if obs.harness_error:
            acc.errors.append(obs.harness_error)
            return None
        failed = sim.storage.failed
        if any(q[0] == "not_quiescent" for q in obs.problems):
            probs.append(("not_quiescent_after_a_transient_storage_failure", obs.problems[:1]))
        else:
            ps = O.persist_problems(sim)
            if ps:
                probs.append(("persisted_state_differs_after_recovery", ps[:4], "failed write %d of %d" % (holder["k"], n)))
            rp = O.reload_problems(sim)
            if rp:
                probs.append(("reloaded_state_differs_after_recovery", rp[:4]))
        if count:
            acc.evaluations += 1
            acc.count("storage_fault_runs")
            acc.count("storage_writes_failed", failed)
            acc.add("storage_backends", storage)
            if failed:
                acc.sigs.add("sf:%d" % i)
        return probs
    finally:
        sim.close()


def shard(ctx, acc):
    plan = META["plan"][ctx.tier]
    flavours = F.S.FLAVOURS_MAIN if ctx.tier == "quick" else F.S.FLAVOURS_ALL
    for i in F.indices(ctx, plan["cases"]):
        case = F.make_case(ctx.seed, PROP, i, flavours=flavours)
        probs = run(case, acc)
        if probs is None:
            continue
        acc.sample(W.brief_case(case), cap=2)
        if probs:
            acc.violation(probs[0][0], probs[:3], case)
    # transient storage failure: one write of the run raises; afterwards the users do one more thing, the engine runs to
    # quiescence, and storage must again equal memory (whatever was owed to storage when the write failed is written later)
    for i in F.indices(ctx, plan["cases"] // 4):
        case = F.make_case(ctx.seed, PROP + "sf", i, families=("ONE0", "ONE1", "DISJ"), flavours=flavours)
        probs = run_storage_fault(case, acc, i)
        if probs is None:
            continue
        if probs:
            acc.violation("storage_fault:" + probs[0][0], probs[:3], dict(case, storage_fault=True, sf_index=i))
    probs = codec_check(acc, ctx.shard, ctx.nshards)
    if ctx.shard == 0:
        acc.sample({"family": "CODEC", "row_shapes": {"hashes": len(HASHES), "paths": len(PATHS), "oids": len(OIDS),
                                                        "exists": len(EXISTS), "changed": len(CHANGED)}}, cap=4)
    if probs:
        acc.violation(probs[0][0], probs[:4], {"family": "CODEC"})


def conclusive(acc, tier):
    out = []
    if not acc.counters.get("persist_checks"):
        out.append("persistence comparison never ran")
    if not acc.counters.get("codec_rows"):
        out.append("codec product never ran")
    if "sqlite" not in acc.sets.get("storage_backends", ()):
        out.append("no run on SqliteStorage")
    return out


coverage_extra = E.coverage_extra


def replay(rep):
    case = rep.get("case") or {}
    if case.get("family") == "CODEC":
        acc = Acc()
        p = []
        for sh in range(16):
            p += codec_check(acc, sh, 16)
        print("codec:", p[:4])
        return 1 if p else 0
    return E.replay_with(lambda c: run(c, count=False))(rep)
