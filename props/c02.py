"""C02 No silent data loss; conflicts keep both versions; corrupt content never propagates."""
import random

from vlib import engine_check as E
from vlib import family as F
from vlib import oracles as O
from vlib import probes as P
from vlib import runner as R
from vlib import sim as S
from vlib import workload as W
from vlib.shard import Acc

PROP = "C02"
META = {
    "level": "exploration",
    "claim": 'Held on the executed runs: a content ledger over unique per-write contents (must_survive = written minus user-destroyed) is checked at quiescence and at every engine delete/upload (early witness) on same-path conflict, disjoint and one-sided histories; corrupt-read scenarios (alone, with a concurrent good edit, followed by delete/rename of the unreadable file) check that the unreadable bytes never reach the other side, the good copy survives on its side and the pair converges after healing.',
    "note": "Trusted: unique-content policy identifies versions; 'destroyed' is judged from the file instance the user op actually hit. Default resolver only (the statement exempts resolver-chosen discards). Renames inside same-path conflicts are hazard HF (finding K2) and not generated here.",
    "technique": 'runtime monitoring: content-conservation ledger over recorded user writes and engine calls + corrupt-read fault injection',
    "plan": {"quick": {"shards": 16, "timeout": 600, "cases": 9000, "corrupt": 1500},
             "thorough": {"shards": 32, "timeout": 3000, "cases": 240000, "corrupt": 40000}},
    "rule": "case = two-sided same-path history (family CONF: create/create, edit/edit, edit/delete, delete/recreate on 3 "
            "shared paths, default resolver) or DISJ/ONE history, flavour x shape round-robin; every written content is "
            "unique so a byte string identifies its write; plus corrupt-read scenarios (corrupt edit alone / with a "
            "concurrent good edit / followed by delete or rename of the corrupt file) x fault window x schedule; "
            "distinct = distinct case signature; non-trivial = >= 1 engine write after the base tree",
    "assumptions": ["must_survive = versions written by users minus versions a user op overwrote or deleted (judged when the op ran)",
                    "empty contents are not tracked (not unique)",
                    "a version whose every read fails with CloudCorruptError is unreadable and not owed preservation"],
}


def evaluate(case, obs, sim, monitors):
    led = monitors[0]
    probs = list(obs.problems)
    if obs.unhandled:
        probs.append(("exception_escaped_step", obs.unhandled[:2]))
    if led.early:
        probs.append(("engine_destroyed_last_copy", led.early[:3]))
    if obs.trees is not None:
        lost = led.lost(*obs.trees)
        if lost:
            probs.append(("content_lost", lost[:3]))
    return probs


def run(case, acc=None, count=True):
    acc = acc or Acc()
    mons = []

    def fac():
        mons[:] = [O.ContentLedger()]
        return mons
    probs = E.run_one(case, acc, evaluate, monitors_factory=fac, count=count)
    if count and mons:
        acc.count("versions_written", len(mons[0].written))
        acc.count("versions_user_destroyed", len(mons[0].destroyed))
        acc.count("versions_must_survive", len(mons[0].must_survive()))
    return probs


# ----------------------------------------------------------------------------------------------- corrupt scenarios
def corrupt_case(seed, index):
    rng = random.Random("%s:C02corrupt:%d" % (seed, index))
    g = W.Gen(rng)
    flavour = ("oo", "pp", "po", "op")[index % 4]
    scen = ("alone", "concurrent", "then_delete", "then_rename")[(index // 4) % 4]
    side = (index // 16) % 2                  # side whose copy becomes unreadable
    shape = W.SHAPES[(index // 32) % len(W.SHAPES)]
    return {"family": "CORRUPT", "flavour": flavour, "shape": shape, "scen": scen, "side": side, "index": index,
            "sim_seed": rng.getrandbits(32), "gseed": rng.getrandbits(32), "sched": [], "base": []}


def run_corrupt(case, acc, count=True):
    """One corrupt-read scenario.  The version vA written on side a is unreadable (every engine download of an object
    currently holding vA raises CloudCorruptError) until the fault is lifted."""
    rng = random.Random(case["gseed"])
    g = W.Gen(rng)
    a, b = case["side"], 1 - case["side"]
    name = g.names.fresh("k")
    other = g.names.fresh("k")
    v0, w0 = g.contents.fresh(a), g.contents.fresh(a)
    vA, vB, vA2 = g.contents.fresh(a), g.contents.fresh(b), g.contents.fresh(a)
    sim = S.Sim(case["flavour"], rng=random.Random(case["sim_seed"]))
    probs = []
    active = [False]
    tap = sim.taps[a]

    def settle(rounds):
        """bounded stepping under a persistent fault (quiescence is not owed while a file keeps failing)"""
        names = ["E0", "E1", "S"]
        for _ in range(rounds):
            sim.rng.shuffle(names)
            for n in names:
                sim.step(n)

    def gap():
        for e in g.gap(case["shape"]):
            if e[0] == "Q":
                settle(6)
            else:
                sim.step(e[0])

    def n_corrupt():
        return len([i for i in sim.world.injected if i["kind"] == "corrupt"])
    try:
        sim.user({"side": a, "op": "create", "path": name, "data": v0})
        sim.user({"side": a, "op": "create", "path": other, "data": w0})
        sim.quiesce()
        tap.corrupt = lambda oid, path: active[0] and tap.bytes_of(oid) == vA
        active[0] = True
        sim.user({"side": a, "op": "write", "path": name, "data": vA})
        n0 = len(sim.world.calls)
        if case["scen"] in ("alone", "concurrent"):
            gap()
        if case["scen"] == "concurrent":
            sim.user({"side": b, "op": "write", "path": name, "data": vB})
            gap()
        elif case["scen"] in ("then_delete", "then_rename"):
            # act right after the engine met the unreadable content, before it repairs the file from the good copy
            for _ in range(200):
                if n_corrupt():
                    break
                sim.step(sim.rng.choice(("E0", "E1", "S")))
            if case["scen"] == "then_delete":
                sim.user({"side": a, "op": "delete", "path": name})
            else:
                sim.user({"side": a, "op": "rename", "path": name, "to": g.names.fresh("k")})
            gap()
        settle(25)
        sim.drain_notifications()
        # ---- oracles under the fault
        good = {v0, vB} if case["scen"] == "concurrent" else {v0}
        for c in sim.world.calls[n0:]:
            if c["op"] in ("create", "upload") and c["side"] == b and c.get("data") == vA:
                probs.append(("corrupt_bytes_propagated", O.brief_call(c)))
        tb = sim.tree(b)
        got = tb.get(name)
        have_b = {v[1] for v in tb.values() if v[0] == "file"}
        if not (have_b & good):
            # the good copy may legitimately follow a rename, but it must still exist on its side
            probs.append(("good_copy_replaced_or_removed", name, O.short(got), case["scen"]))
        if case["scen"] == "concurrent" and vB not in have_b:
            probs.append(("good_edit_lost", name, O.short(got)))
        if tb.get(other) != ("file", w0):
            probs.append(("bystander_changed", other, O.short(tb.get(other))))
        if any(v[0] == "file" and v[1] == vA for v in tb.values()):
            probs.append(("corrupt_bytes_on_other_side", [k for k, v in tb.items() if v == ("file", vA)][:2]))
        kinds = [n.ntype.value for n in sim.notifications]
        if count:
            acc.count("corrupt_reads_injected", n_corrupt())
            acc.count("corrupt_notifications", kinds.count("sync_corrupt_ignored"))
            acc.count("corrupt_runs_with_injection", 1 if n_corrupt() else 0)
            acc.add("corrupt_scenarios", case["scen"] + ":" + case["flavour"])
        # ---- heal: lift the fault, rewrite (or recreate) the file with new readable content
        active[0] = False
        ta = sim.tree(a)
        holders = [k for k, v in ta.items() if v == ("file", vA)]
        if holders:
            # the engine keeps an object marked unreadable until its content changes: rewrite that very object
            r = sim.user({"side": a, "op": "write", "path": holders[0], "data": vA2})
        elif ta.get(name, ("x",))[0] == "file":
            r = sim.user({"side": a, "op": "write", "path": name, "data": vA2})
        else:
            r = sim.user({"side": a, "op": "create", "path": name, "data": vA2})
        gap()
        sim.quiesce()
        L, Rt = sim.tree(0), sim.tree(1)
        probs.extend(O.converged_problems(L, Rt))
        have = {v[1] for t in (L, Rt) for v in t.values() if v[0] == "file"}
        if r.get("ok") and vA2 not in have:
            probs.append(("healed_content_lost", name))
        if case["scen"] == "concurrent" and vB not in have and r.get("old") != vB:
            probs.append(("good_edit_lost_after_heal", name))
        if count:
            acc.evaluations += 1
            acc.count("engine_steps", sim.steps)
            if n_corrupt():
                acc.sigs.add("corrupt:%s:%s:%d:%s" % (case["flavour"], case["scen"], case["side"], case["shape"]))
    except S.NotQuiescent as e:
        probs.append(("not_quiescent_after_heal", str(e), case["scen"]))
    finally:
        sim.close()
    return probs


def shard(ctx, acc):
    plan = META["plan"][ctx.tier]
    flavours = F.S.FLAVOURS_MAIN if ctx.tier == "quick" else F.S.FLAVOURS_ALL
    fams = ("CONF", "CONF", "CONF", "DISJ", "ONE0", "ONE1")
    for i in F.indices(ctx, plan["cases"]):
        case = F.make_case(ctx.seed, PROP, i, families=fams, flavours=flavours)
        hz, _ = F.classify(case)
        if hz:
            acc.inconclusive.append("generator bug: main-family case %d has hazard %s" % (i, sorted(hz)))
            continue
        probs = run(case, acc)
        if probs is None:
            continue
        acc.sample(W.brief_case(case))
        if probs:
            acc.violation(probs[0][0], probs[:4], case)
    for i in F.indices(ctx, plan["corrupt"]):
        case = corrupt_case(ctx.seed, i)
        probs = run_corrupt(case, acc)
        if i < 3:
            acc.sample({k: case[k] for k in ("family", "flavour", "shape", "scen", "side")}, cap=6)
        if probs:
            acc.violation(probs[0][0], probs[:4], case)
    if ctx.shard == 0:
        P.run_probes(PROP, acc, lambda c: run(c, count=False))


def conclusive(acc, tier):
    out = []
    if acc.counters.get("versions_must_survive", 0) == 0:
        out.append("the content ledger tracked no version")
    if acc.counters.get("corrupt_reads_injected", 0) == 0:
        out.append("no corrupt read was injected")
    return out


coverage_extra = E.coverage_extra


def replay(rep):
    case = rep.get("case") or {}
    if case.get("family") == "CORRUPT":
        hits = 0
        for k in range(5):
            c = dict(case)
            c["sim_seed"] = case["sim_seed"] + k
            p = run_corrupt(c, Acc(), count=False)
            if p:
                hits += 1
                if hits == 1:
                    print("reproduced:", p[:3])
        print("reproduction rate %d/5" % hits)
        return 1 if hits else 0
    return E.replay_with(lambda c: run(c, count=False))(rep)
