"""C15 Thread safety: sync state only touched under its lock; threaded runs converge."""
import random

from vlib import family as F
from vlib import workload as W

PROP = "C15"
META = {
    "level": "exploration",
    "engine": "threaded",
    "claim": "Held on the executed runs: with the engine started as in production (sync thread, one event thread per side, notification thread), two user threads applying a generated one-sided or disjoint two-sided history and application threads calling the public surface (busy, change_count, aging, and for SmartCloudSync request / un-request by path and id and the merged listing), under a 1 microsecond switch interval and LINE-level yield injection in cloudsync code, every observed mutation of the sync state (updated, _change_path, _change_oid, mark_changed, finished, split, storage_commit, update, update_entry, forget*, and the smart request/exclude bookkeeping) was made by a thread that owned the state lock at that instant - a deterministic observation made inside the mutating call - and after stop() a fresh engine over the same providers and storage quiesces to the exact expected trees with a consistent index. A quarter of the runs add an application thread that polls 'busy' in a tight loop. (handoff rounds) with one producer thread applying 150 creates/writes to a MockProvider and the engine's two kinds of event consumers on threads of their own - a loop draining provider.events() and a busy-style consumer that takes one event and abandons the generator - under statement-boundary yields, every event index the provider assigned was delivered to at least one consumer and nobody raised. (atomic steps) the state lock is never given up completely and taken again inside one entry synchronisation or one event application (observed on a stand-in for SyncState.lock, independent of whether another thread used the gap). (walk handoff) with an application thread calling CloudSync.walk() over a slow listing while the engine's threads run, every walk event it queued was processed: all 40 files that only the walk could reveal reached the other side.",
    "note": "Trusted: lock ownership is read with RLock._is_owned() inside wrappers installed on the SyncState / SmartSyncState class attributes. Reach is the interleavings the OS produced in these runs plus the ownership check, which does not depend on the interleaving. Exceptions out of read-only public calls (e.g. a listing iterating a dict that another thread resizes) are counted in the evidence but are not read-modify-writes and not a verdict. Unfiltered mock flavours only (the mock's own listdir/events generators are not thread safe).",
    "technique": "runtime monitoring under real threads: lock-ownership assertion inside every state mutation, yield injection via sys.monitoring, convergence + index oracle after a deterministic post-run quiescence",
    "plan": {"quick": {"shards": 16, "timeout": 900, "runs": 48, "handoff": 64, "walk_handoff": 32},
             "thorough": {"shards": 32, "timeout": 3400, "runs": 1600, "handoff": 1600, "walk_handoff": 800}},
    "rule": "run = one threaded execution (about 1.3-2 s) of a generated ONE/DISJ history (8-20 ops, no folder renames) on a "
            "flavour of {oo, po, pp, op}; every third run uses SmartCloudSync with a request/un-request thread; distinct = "
            "distinct (case signature, smart flag); non-trivial = state mutations were observed from the sync thread and from an event thread; plus handoff rounds (no-loss check of provider events between producer and the two consumers)",
    "assumptions": ["CPython 3.12 sys.monitoring available (else runs proceed without yield injection and say so)"],
}

WEIGHTS = {"create": 4, "write": 3, "rename": 3, "delete": 2, "mkdir": 2, "rmdir": 1, "rendir": 0, "recreate": 0}


def shard(ctx, acc):
    from vlib import threaded as T
    plan = META["plan"][ctx.tier]
    for i in range(ctx.shard, plan["runs"], ctx.nshards):
        smart = i % 3 == 2
        case = F.make_case(ctx.seed, PROP, i, families=("ONE0", "ONE1", "DISJ"), flavours=("oo", "po", "pp", "op"),
                           shapes=("burst",), nops=(8, 20), weights=WEIGHTS)
        if smart:
            case["flavour"] = ("oo", "po")[i % 2]
        poll = i % 4 == 1
        r = T.run_threaded(case, "%s:%d" % (ctx.seed, i), smart=smart, duration=1.0 if ctx.tier == "quick" else 1.5,
                           poll_busy=poll)
        if poll:
            acc.count("runs_with_busy_poller")
            acc.count("busy_polls", r["stats"].get("busy_polls", 0))
        st = r["stats"]
        acc.evaluations += 1
        acc.count("runs_smart" if smart else "runs_plain")
        acc.count("monitored_lines", st.get("lines", 0))
        acc.count("state_lock_acquisitions_watched", st.get("lock_acquisitions_watched", 0))
        acc.count("yields_injected", st.get("yields", 0))
        acc.count("exceptions_from_read_only_public_calls", st.get("exceptions_from_public_calls", 0))
        for k in st.get("exception_kinds", ()):
            acc.add("read_only_call_exception_kinds", k)
        threads = set()
        for k, v in st.get("mutations", {}).items():
            meth, th = k.split("@")
            acc.count("mutations_checked_total", v)
            acc.count("mutations_by_thread_" + th, v)
            acc.add("mutation_sites", k)
            threads.add(th)
        if {"SyncManager", "EventManager"} <= threads or {"SmartSyncManager", "SmartEventManager"} <= threads:
            acc.sigs.add(W.signature(case) + (":smart" if smart else ""))
        if not st.get("yield_injection"):
            acc.add("notes", "yield injection unavailable")
        if i < 3:
            acc.sample(dict(W.brief_case(case), smart=smart, mutations_checked=sum(st.get("mutations", {}).values())))
        if r["problems"]:
            acc.violation(r["problems"][0][0], r["problems"][:3] + [("log", st.get("log_about_first_bad_path"), st.get("rejected_ops"))],
                          dict(case, smart=smart))
    _handoff(ctx, acc)
    if ctx.shard == 0:
        from vlib import probes as P
        P.run_fixed_demos(PROP, acc)


def _handoff(ctx, acc):
    from vlib import threaded as T
    plan = META["plan"][ctx.tier]
    for j in range(ctx.shard, plan.get("handoff", 0), ctx.nshards):
        probs, st = T.events_handoff_round("%s:handoff:%d" % (ctx.seed, j))
        acc.evaluations += 1
        acc.count("handoff_rounds")
        acc.count("handoff_events", st["events"])
        acc.count("handoff_events_taken_by_busy_consumer", st["to_busy"])
        acc.count("handoff_events_seen_by_both", st["both"])
        acc.sigs.add("handoff:%d" % j)
        if probs:
            acc.violation(probs[0][0], probs[:3], {"family": "HANDOFF", "j": j})
    for j in range(ctx.shard, plan.get("walk_handoff", 0), ctx.nshards):
        probs, st = T.walk_handoff_round("%s:walkhandoff:%d" % (ctx.seed, j))
        acc.evaluations += 1
        acc.count("walk_handoff_rounds")
        acc.count("walk_events_queued_by_application_thread", st["files"])
        acc.sigs.add("walkhandoff:%d" % j)
        if probs:
            acc.violation(probs[0][0], probs[:3], {"family": "WALKHANDOFF", "j": j})


def conclusive(acc, tier):
    out = []
    c = acc.counters
    if not c.get("mutations_by_thread_SyncManager"):
        out.append("no state mutation observed from the sync thread")
    if not c.get("mutations_by_thread_EventManager"):
        out.append("no state mutation observed from an event thread")
    if c.get("runs_smart") and not c.get("mutations_by_thread_smart-app"):
        out.append("no state mutation observed from the application thread calling the smart-sync surface")
    return out


def replay(rep):
    from vlib import threaded as T
    c = rep.get("case") or {}
    hits = 0
    for k in range(5):
        r = T.run_threaded(c, "replay:%d" % k, smart=bool(c.get("smart")))
        if r["problems"]:
            hits += 1
            if hits == 1:
                print(str(r["problems"][:3])[:1500])
    print("reproduction rate %d/5" % hits)
    return 1 if hits else 0
