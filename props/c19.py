"""C19 Hierarchical path/id cache stays coherent under any operation sequence."""
import itertools
import random

from vlib import load as _load

PROP = "C19"
META = {
    "level": "exploration",
    "engine": "component",
    "claim": "Held on the executed sequences: after every call of every generated sequence (all sequences of length <= 3 over a reduced operation set, random sequences up to 40 calls; names {a,b,A}, ids o0..o5, depth <= 3, case-sensitive and case-insensitive) a structural walker finds a cycle-free tree in which every node reachable from the root is mapped by its id, every mapped id is reachable, no id is held twice and get_oid(get_path(id)) == id, and every public getter (get_oid, get_path, get_type, listdir, walk) agrees with a plain dict model of insert / evict-subtree semantics.",
    "note": "Trusted: the dict model written from the docstrings (insert = make missing or non-folder parents as id-less folders, evict the subtree at the path, evict the subtree of whoever holds the id; delete = evict subtree; rename = detach, evict target, insert; set_oid on a node with another id = replace the node). Inputs no provider can produce are excluded: a folder renamed into its own subtree, and giving a node the id currently held by one of its own ancestors (finding K9, probed separately).",
    "technique": "runtime monitoring: structural invariant walker + dict reference model in lock-step after every call",
    "plan": {"quick": {"shards": 16, "timeout": 600, "exh": 3, "random": 6000},
             "thorough": {"shards": 32, "timeout": 3000, "exh": 4, "random": 400000}},
    "rule": "evaluation = one operation sequence on one casing; exhaustive part over a reduced symbol set (2 names x depth 2, "
            "3 ids) up to the stated length, random part 10-40 calls over the full universe; distinct = distinct (casing, "
            "sequence); non-trivial = the sequence contains an id collision, an overwrite, a type change or a rename of a folder with children",
    "assumptions": ["single-threaded use"],
}

NAMES = ("a", "b", "A")
IDS = ("o0", "o1", "o2", "o3", "o4", "o5")


def universe(names, depth):
    out = []
    for d in range(1, depth + 1):
        for t in itertools.product(names, repeat=d):
            out.append("/" + "/".join(t))
    return out


class Model:
    def __init__(self, prov):
        self.prov = prov
        self.n = {}                     # normalised path -> [type, oid]

    def norm(self, p):
        return self.prov.normalize_path(p)

    def evict(self, p):
        for k in [k for k in self.n if k == p or k.startswith(p + "/")]:
            del self.n[k]

    def holder(self, oid):
        for k, v in self.n.items():
            if v[1] == oid:
                return k
        return None

    def ancestors(self, p):
        parts = p.strip("/").split("/")
        return ["/" + "/".join(parts[:i]) for i in range(1, len(parts))]

    def ensure_parents(self, p):
        for a in self.ancestors(p):
            if a not in self.n or self.n[a][0] != "dir":
                self.evict(a)
                self.n[a] = ["dir", None]

    def insert(self, p, typ, oid, subtree=None):
        self.ensure_parents(p)
        self.evict(p)
        if oid is not None:
            h = self.holder(oid)
            if h is not None:
                self.evict(h)
        self.n[p] = [typ, oid]
        for rel, v in (subtree or {}).items():
            if v[1] is not None:
                h = self.holder(v[1])
                if h is not None:
                    self.evict(h)
            self.n[p + rel] = list(v)

    # the seven operations
    def create(self, p, oid):
        self.insert(self.norm(p), "file", oid)

    def mkdir(self, p, oid):
        self.insert(self.norm(p), "dir", oid)

    def delete_path(self, p):
        self.evict(self.norm(p))

    def delete_oid(self, oid):
        h = self.holder(oid)
        if h is not None:
            self.evict(h)

    def rename(self, old, new):
        old, new = self.norm(old), self.norm(new)
        node = self.n.get(old)
        sub = {k[len(old):]: v for k, v in self.n.items() if k.startswith(old + "/")}
        if node is not None:
            self.evict(old)
        self.evict(new)
        if node is not None:
            self.insert(new, node[0], node[1], sub)

    def set_oid(self, p, oid, typ):
        p = self.norm(p)
        node = self.n.get(p)
        if node is None:
            self.insert(p, typ, oid)
            return
        if node[1] == oid:
            return
        h = self.holder(oid)
        if h is not None:
            self.evict(h)
        if p not in self.n:             # the holder was the node's own ancestor: excluded by the generator
            return
        if node[1] is None:
            node[1] = oid
        else:
            self.insert(p, node[0], oid)

    def update(self, p, typ, oid):
        p = self.norm(p)
        node = self.n.get(p)
        if node is not None and node[0] != typ:
            self.evict(p)
            node = None
        if node is None:
            self.insert(p, typ, oid)
        elif oid:
            self.set_oid(p, oid, typ)


def k9_input(model, path, oid):
    """the id is currently held by an ancestor of the path (finding K9; no provider produces this)"""
    h = model.holder(oid) if oid is not None else None
    p = model.norm(path)
    return h is not None and p.startswith(h + "/")


def structural(cache):
    """walk strong references from the root"""
    probs = []
    root = cache._root                                  # pylint: disable=protected-access
    omap = cache._oid_to_node                           # pylint: disable=protected-access
    seen = {}
    stack = [(root, "")]
    oids = {}
    while stack:
        node, path = stack.pop()
        if id(node) in seen:
            probs.append(("cycle_or_shared_node", path))
            continue
        seen[id(node)] = path
        if node.oid is not None:
            if node.oid in oids and oids[node.oid] is not node:
                probs.append(("id_held_by_two_nodes", node.oid, path))
            oids[node.oid] = node
            if omap.get(node.oid) is not node:
                probs.append(("reachable_node_not_mapped_by_its_id", node.oid, path))
        for name, ch in node.children.items():
            if ch.parent is not node:
                probs.append(("child_parent_link_broken", path + "/" + name))
            if ch.name != name:
                probs.append(("child_filed_under_another_name", name, ch.name))
            stack.append((ch, path + "/" + name))
    for oid, node in omap.items():
        if id(node) not in seen:
            probs.append(("dangling_id_map_entry", oid))
    return probs


def compare(cache, model, prov, paths):
    from cloudsync.types import DIRECTORY, FILE
    probs = []
    T = {DIRECTORY: "dir", FILE: "file", None: None}
    for p in paths:
        np_ = model.norm(p)
        want = model.n.get(np_)
        got_t = T[cache.get_type(path=p)]
        got_o = cache.get_oid(p)
        if (want[0] if want else None) != got_t or (want[1] if want else None) != got_o:
            probs.append(("getter_disagrees_with_model", p, (got_t, got_o), tuple(want) if want else None))
        if want and want[0] == "dir":
            kids = sorted(k[len(np_) + 1:] for k in model.n if k.startswith(np_ + "/") and "/" not in k[len(np_) + 1:])
            got = sorted(cache.listdir(path=p))
            if got != kids:
                probs.append(("listdir_disagrees", p, got, kids))
    for oid in IDS:
        h = model.holder(oid)
        gp = cache.get_path(oid)
        if (gp is None) != (h is None) or (gp is not None and model.norm(gp) != h):
            probs.append(("get_path_disagrees", oid, gp, h))
        if gp is not None and cache.get_oid(gp) != oid:
            probs.append(("get_oid(get_path(id)) != id", oid, gp, cache.get_oid(gp)))
    want_walk = sorted(["/"] + list(model.n))
    got_walk = sorted(model.norm(x) for x in cache.walk())
    if want_walk != got_walk:
        probs.append(("walk_disagrees", got_walk[:8], want_walk[:8]))
    return probs


def apply(cache, model, op):
    from cloudsync.types import DIRECTORY, FILE
    TT = {"dir": DIRECTORY, "file": FILE}
    k = op[0]
    if k == "create":
        cache.create(op[1], op[2])
        model.create(op[1], op[2])
    elif k == "mkdir":
        cache.mkdir(op[1], op[2])
        model.mkdir(op[1], op[2])
    elif k == "delete_path":
        cache.delete(path=op[1])
        model.delete_path(op[1])
    elif k == "delete_oid":
        cache.delete(oid=op[1])
        model.delete_oid(op[1])
    elif k == "rename":
        cache.rename(op[1], op[2])
        model.rename(op[1], op[2])
    elif k == "set_oid":
        cache.set_oid(op[1], op[2], TT[op[3]])
        model.set_oid(op[1], op[2], op[3])
    elif k == "update":
        cache.update(op[1], TT[op[3]], oid=op[2])
        model.update(op[1], op[3], op[2])


def admissible(model, op):
    k = op[0]
    if k == "rename":
        a, b = model.norm(op[1]), model.norm(op[2])
        if (b + "/").startswith(a + "/") and a != b:
            return False                                # a folder into its own subtree
        node = model.n.get(a)
        if node is not None:
            ids = [node[1]] + [v[1] for kk, v in model.n.items() if kk.startswith(a + "/")]
            for i in ids:
                if i is not None and k9_input_after_detach(model, a, b, i):
                    return False
        return True
    if k in ("create", "mkdir", "set_oid", "update"):
        return not k9_input(model, op[1], op[2])
    return True


def k9_input_after_detach(model, old, new, oid):
    h = model.holder(oid)
    return h is not None and not (h == old or h.startswith(old + "/")) and new.startswith(h + "/")


def run_sequence(case_sensitive, ops, paths):
    from cloudsync.hierarchical_cache import HierarchicalCache
    from cloudsync.providers.mock import MockProvider
    prov = MockProvider(False, case_sensitive)
    cache = HierarchicalCache(prov, "root")
    model = Model(prov)
    nontrivial = False
    done = []
    for op in ops:
        if not admissible(model, op):
            continue
        # non-triviality markers (inputs only)
        if op[0] in ("create", "mkdir", "set_oid", "update") and (model.holder(op[2]) is not None or model.norm(op[1]) in model.n):
            nontrivial = True
        if op[0] == "rename" and any(k.startswith(model.norm(op[1]) + "/") for k in model.n):
            nontrivial = True
        done.append(op)
        try:
            apply(cache, model, op)
        except Exception as e:      # noqa
            return [("exception", op, type(e).__name__, str(e)[:150])], done, nontrivial
        probs = structural(cache) or compare(cache, model, prov, paths)
        if probs:
            return [(p[0],) + tuple(p[1:]) + (("after", op),) for p in probs[:3]], done, nontrivial
    return [], done, nontrivial


def gen_op(rng, paths, ids):
    k = rng.choice(("create", "create", "mkdir", "mkdir", "rename", "rename", "delete_path", "delete_oid", "set_oid", "update"))
    if k == "create":
        return (k, rng.choice(paths), rng.choice(ids))
    if k == "mkdir":
        return (k, rng.choice(paths), rng.choice(ids + (None,)))
    if k == "rename":
        return (k, rng.choice(paths), rng.choice(paths))
    if k == "delete_path":
        return (k, rng.choice(paths))
    if k == "delete_oid":
        return (k, rng.choice(ids))
    if k == "set_oid":
        return (k, rng.choice(paths), rng.choice(ids), rng.choice(("dir", "file")))
    return (k, rng.choice(paths), rng.choice(ids + (None,)), rng.choice(("dir", "file")))


def k9_probe():
    """finding K9: a descendant is given the id held by its own ancestor folder"""
    from cloudsync.hierarchical_cache import HierarchicalCache
    from cloudsync.providers.mock import MockProvider
    prov = MockProvider(False, True)
    cache = HierarchicalCache(prov, "root")
    try:
        cache.mkdir("/a", "o0")
        cache.mkdir("/a/b", "o1")
        cache.create("/a/b/a", "o0")
    except AssertionError:
        return True
    except Exception:       # noqa
        return True
    return bool(structural(cache))


def shard(ctx, acc):
    _load.load()
    plan = META["plan"][ctx.tier]
    small_paths = universe(("a", "A"), 2)
    small_ids = ("o0", "o1")
    syms = []
    for p in small_paths[:4]:
        for i in small_ids:
            syms.append(("create", p, i))
            syms.append(("mkdir", p, i))
        syms.append(("delete_path", p))
    for p in small_paths[:3]:
        for q in small_paths[:3]:
            if p != q:
                syms.append(("rename", p, q))
    for i in small_ids:
        syms.append(("delete_oid", i))
    syms.append(("set_oid", "/a", "o1", "dir"))
    syms.append(("update", "/a", "o0", "file"))
    idx = 0
    for cs in (True, False):
        for n in range(1, plan["exh"] + 1):
            for seq in itertools.product(syms, repeat=n):
                idx += 1
                if idx % ctx.nshards != ctx.shard:
                    continue
                probs, done, nt = run_sequence(cs, seq, small_paths)
                acc.evaluations += 1
                acc.count("exhaustive_sequences")
                if nt:
                    acc.sigs.add("e:%s:%d" % (cs, idx))
                if probs:
                    acc.violation(probs[0][0], probs[:3], {"family": "SEQ", "case_sensitive": cs, "ops": [list(o) for o in done]})
    paths = universe(NAMES, 3)
    for j in range(ctx.shard, plan["random"], ctx.nshards):
        rng = random.Random("%s:c19:%d" % (ctx.seed, j))
        cs = bool(j % 2)
        ops = [gen_op(rng, paths, IDS) for _ in range(rng.randrange(10, 41))]
        probs, done, nt = run_sequence(cs, ops, paths)
        acc.evaluations += 1
        acc.count("random_sequences")
        acc.count("cache_calls", len(done))
        acc.add("casing", "sensitive" if cs else "insensitive")
        if nt:
            acc.sigs.add("r:%d" % j)
        if j < 2:
            acc.sample({"case_sensitive": cs, "ops": [list(map(str, o)) for o in done[:20]]})
        if probs:
            acc.violation(probs[0][0], probs[:3], {"family": "SEQ", "case_sensitive": cs, "ops": [list(o) for o in done]})
    if ctx.shard == 0 and k9_probe():
        acc.known_hit("K9", {"ops": ["mkdir /a o0", "mkdir /a/b o1", "create /a/b/a o0"]})


def conclusive(acc, tier):
    return [] if acc.counters.get("cache_calls") else ["no cache call executed"]


def replay(rep):
    _load.load()
    c = rep.get("case") or {}
    ops = [tuple(o) for o in c.get("ops", [])]
    paths = universe(NAMES, 3)
    probs, done, _ = run_sequence(c.get("case_sensitive", True), ops, paths)
    print(probs[:3])
    return 1 if probs else 0
