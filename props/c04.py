"""C04 Non-conflicting concurrent changes merge exactly (no resurrection, no duplication)."""
from vlib import engine_check as E
from vlib import family as F
from vlib import oracles as O
from vlib import probes as P
from vlib import workload as W
from vlib import nest as N
from vlib.shard import Acc

PROP = "C04"
META = {
    "level": "exploration",
    "claim": "Held on the executed runs: for two-sided histories over disjoint objects (ownership by top-level entry of a synchronised nested base tree) the quiescent trees of both sides equal base + both deltas computed on a plain dict model; no '.conflicted' artefact, no resurrected delete, no object at old and new name, folder renames keep their children.",
    "note": 'Trusted: dict model of user ops; disjointness by construction makes the expected merge unique. Same hazard exclusions as C03 (HD, HF, HC) with thorough-tier hazard-seeking attribution.',
    "technique": 'runtime monitoring: three-way-merge model oracle over observed quiescent trees',
    "plan": {"quick": {"shards": 16, "timeout": 600, "cases": 12000, "nest": 6000},
             "thorough": {"shards": 32, "timeout": 3000, "cases": 300000, "seek": 40000, "nest": 150000}},
    "rule": "case = two-sided history over disjoint objects (family DISJ: ownership by top-level entry of a synchronised "
            "base tree with nested folders; deletes, renames, moves, edits, mkdir/rmdir, isolated folder renames with "
            "children), flavour x shape round-robin, 4-12 ops; distinct = distinct case signature; non-trivial = >= 1 "
            "engine write after the base tree.  plus family REUSE2 (a third of the cases: both sides take names again that they vacated in an earlier window, within the top-level entries they own); plus family DEEPMK (mkdir two levels below a folder renamed in the same window, path-id actor, no sync step between); plus family SWAP (one side exchanges or rotates the names of 2-3 synchronised files through a temporary name in one window with no sync step in between, the other side creating/editing its own files); plus family NEST (folder renames/moves on one side racing with file create/write/in-place rename/move-in inside them on the other side, id-stable providers, object-addressed ops, object-graph expectation).  thorough adds un-isolated folder renames / name re-use (attributed to K1/K2 or reported)",
    "assumptions": ["expected tree = base with both sides' deltas applied on a plain dict model (possible because objects are disjoint)"],
}


def evaluate(case, obs, sim, monitors):
    probs = list(obs.problems)
    if obs.unhandled:
        probs.append(("exception_escaped_step", obs.unhandled[:2]))
    if obs.trees is None:
        return probs
    L, R = obs.trees
    probs.extend(O.exact_problems(L, case["expect"], "local_tree"))
    probs.extend(O.exact_problems(R, case["expect"], "remote_tree"))
    cp = O.conflicted_paths(L, R)
    if cp:
        probs.append(("conflicted_artefact", cp[:3]))
    rej = [o for o in obs.user if not o.get("ok")]
    if rej:
        probs.append(("user_op_rejected", [(o["side"], o["op"], o["path"], o.get("exc")) for o in rej[:3]]))
    return probs


def run(case, acc=None, count=True):
    return E.run_one(case, acc or Acc(), evaluate, count=count)


def shard(ctx, acc):
    plan = META["plan"][ctx.tier]
    flavours = F.S.FLAVOURS_MAIN if ctx.tier == "quick" else F.S.FLAVOURS_ALL
    for i in F.indices(ctx, plan["cases"]):
        case = F.make_case(ctx.seed, PROP, i, families=("DISJ", "DISJ", "REUSE2"), flavours=flavours)
        hz, _ = F.classify(case)
        if hz:
            acc.inconclusive.append("generator bug: main-family case %d has hazard %s" % (i, sorted(hz)))
            continue
        probs = run(case, acc)
        if probs is None:
            continue
        acc.sample(W.brief_case(case))
        if probs:
            acc.violation(probs[0][0], probs[:4], case)
    # SWAP: one side exchanges / rotates the names of synchronised files through a temporary name within one window while the
    # other side works on files of its own.  HF by the letter; measured tolerated (0 failures in 24 000 cases on the pinned
    # tree) as long as no sync step runs between the renames - hence the three schedule shapes without S in the gaps.
    for i in F.indices(ctx, plan["cases"] // 6):
        case = F.make_case(ctx.seed, PROP + "swap", i, families=("SWAP",), flavours=F.S.FLAVOURS_ALL,
                           shapes=("burst", "intake", "starveS"), nops=(4, 10))
        probs = run(case, acc)
        if probs is None:
            continue
        acc.count("swap_cases")
        if probs:
            acc.violation("swap:" + probs[0][0], probs[:4], case)
    for i in F.indices(ctx, plan.get("seek", 0)):
        case = F.make_case(ctx.seed, PROP + "seek", i, families=("SDISJ",), flavours=("oo", "po", "pp", "op"), nops=(4, 9))
        hz, ks = F.classify(case)
        probs = run(case, acc)
        if probs is None:
            continue
        acc.count("seek_cases")
        if hz:
            acc.count("seek_cases_with_hazard")
        if probs:
            if ks:
                acc.count("seek_failures_attributed")
                acc.known_hit(ks[0], W.brief_case(case))
            else:
                acc.violation("seek:" + probs[0][0], probs[:4], case)
    # DEEPMK: a folder created two or more levels below a folder that is renamed in the same window by the same user, on a
    # path-id side, with no sync step in between (burst / intake).  HD by the letter; measured tolerated (0 of 8 000 on the
    # pinned tree) - with an id-stable acting side, or with sync steps between the two operations, it is K1 territory.
    for i in F.indices(ctx, plan["cases"] // 8):
        case = F.make_case(ctx.seed, PROP + "deepmk", i, families=("DEEPMK",), flavours=("po", "pp", "op"),
                           shapes=("burst", "intake"), nops=(4, 9))
        probs = run(case, acc)
        if probs is None:
            continue
        acc.count("deepmk_cases")
        if probs:
            acc.violation("deepmk:" + probs[0][0], probs[:4], case)
    # NEST: folder renames / moves on one side racing with content operations inside those folders on the other side
    # (id-stable providers, object-addressed operations, object-graph expectation)
    for i in F.indices(ctx, plan.get("nest", 0)):
        case = N.make_case(ctx.seed, i)
        probs, st = N.run_case(case)
        acc.evaluations += 1
        acc.count("nest_cases")
        acc.count("engine_steps", st["steps"])
        acc.count("engine_writes", st["writes"])
        acc.count("user_ops", st["user_ops"])
        hp = [p for p in probs if str(p[0]).startswith("harness")]
        if hp:
            acc.inconclusive.append(str(hp[0])[:200])
            continue
        if st["writes"]:
            acc.sigs.add("nest:%d" % i)
        if i < 2:
            acc.sample(N.brief(case), cap=6)
        two = N.hd2(case)
        if two:
            acc.count("nest_cases_two_folder_renames_above_a_changed_file")
        if probs:
            if two:
                # measured (150 000 cases, pinned tree): about 1 in 30 000 NEST cases fails, always with two or more folder
                # renames above a file that is itself changed - an instance of K1's mechanism that depends on intake order
                acc.count("nest_failures_attributed_K1")
                acc.known_hit("K1", N.brief(case))
            else:
                acc.violation("nest:" + probs[0][0], probs[:4], case)
    if ctx.shard == 0:
        P.run_probes(PROP, acc, lambda c: run(c, count=False))


def conclusive(acc, tier):
    return ["no engine write was observed"] if acc.counters.get("engine_writes", 0) == 0 else []


coverage_extra = E.coverage_extra
_replay_main = E.replay_with(lambda c: run(c, count=False))


def replay(rep):
    c = rep.get("case") or {}
    if c.get("family") == "NEST":
        hits = 0
        for k in range(6):
            cc = dict(c)
            cc["sim_seed"] = c.get("sim_seed", 0) + k
            p, _ = N.run_case(cc)
            if p:
                hits += 1
                if hits == 1:
                    print(str(p[:3])[:1200])
        print("reproduction rate %d/6" % hits)
        return 1 if hits else 0
    return _replay_main(rep)
