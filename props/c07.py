"""C07 Crash consistency: dying at any storage or provider write loses nothing."""
import random

from vlib import engine_check as E
from vlib import family as F
from vlib import oracles as O
from vlib import sim as S
from vlib import workload as W
from vlib.runner import Monitor
from vlib.shard import Acc

PROP = "C07"
META = {
    "level": "fault_enumeration",
    "claim": "Held on the executed runs: for each explored history x schedule, every storage create/update/delete call (die immediately before it) and every engine-issued provider create/upload/rename/delete/mkdir call (die immediately after it) of that run is taken in turn as the crash instant; a new engine is started over whatever storage and provider contents existed at that instant, the users carry on, and after quiescence the family oracle must hold (exact mirror / exact merge, no '.conflicted' artefact, no content lost), and the persisted cursor must not have run ahead of unprocessed events at the crash instant.",
    "note": "Trusted: crash = BaseException raised by the tap at the chosen write, after which every engine call and storage write raises too (nothing can be written in finally blocks); Runnable.run swallows it like any exception. Re-runs are not bit-identical (object ids differ), so 'k-th write' is counted per re-run; crash instants that a re-run never reaches are reported as skipped.",
    "technique": "runtime monitoring with fault enumeration: crash injected at every storage write and every engine provider write of each run, then restart + family oracle + cursor/row monitors",
    "plan": {"quick": {"shards": 16, "timeout": 900, "cases": 240},
             "thorough": {"shards": 32, "timeout": 3400, "cases": 6000}},
    "rule": "case = ONE0/ONE1/DISJ/CONF history (3-7 ops) x flavour x shape; first executed without crash to count its storage "
            "writes w and engine provider writes p after the base tree, then re-executed w + p times with the crash at the "
            "k-th write (exhaustive over k within the run); evaluations = crash runs; distinct = (case signature, crash kind, k); "
            "non-trivial = the crash instant was reached",
    "assumptions": ["MockStorage and (every 4th case) SqliteStorage reopened from its file"],
    "exhaustive": False,
}


class CrashPlan(Monitor):
    def __init__(self, kind=None, k=None):
        self.kind, self.k = kind, k
        self.w0 = self.p0 = 0
        self.crash_rows_bad = []
        self.crashed = False
        self.inflight = []          # root-relative paths the engine wrote in the step that died
        self.later_user = []        # root-relative paths users touched after the crash
        self.after_crash_user = []
        self.torn = False
        S.hook_storage_commit()

    def after_base(self, sim, case):
        self.w0 = sim.storage.writes
        self.p0 = sim.world.engine_writes
        if self.kind == "storage":
            sim.storage.crash_before = self.w0 + self.k
        elif self.kind == "provider":
            for t in sim.taps:
                t.crash_after = self.p0 + self.k

    def after_user(self, sim, rec):
        if rec.get("ok"):
            self.later_user.append([rec["path"]] + ([rec["to"]] if rec.get("to") else []))
            if self.crashed:
                self.after_crash_user.append([rec["path"]] + ([rec["to"]] if rec.get("to") else []))

    def k16_after(self):
        """the narrower half of K16's predicate: a user operation on the in-flight object *after* the crash"""
        for p in self.inflight:
            for paths in self.after_crash_user:
                if any(p == q or p.startswith(q + "/") or q.startswith(p + "/") for q in paths):
                    return True
        return False

    def at_quiescence(self, sim, final):
        # (the runner also calls this when the engine died inside the quiescence loop, before at_crash: not a quiet point)
        if not self.crashed and not sim.world.dead:
            self.later_user = []        # a new window starts: earlier operations are fully synchronised

    def k17(self, sim_crash_site=None):
        """Finding K17 (call-site predicate): the crash fell inside a storage_commit() that had already written at
        least one other row of the sync's state (row-by-row commit without a transaction is torn)."""
        return self.torn

    def k16(self):
        """Finding K16 (input predicate): the object written by the step that died has, besides the user operation being
        propagated, a second user operation in the same window or after the crash (so the engine's own half-recorded
        write meets a further change before the restarted engine can have caught up)."""
        for p in self.inflight:
            n = 0
            for paths in self.later_user:
                if any(p == q or p.startswith(q + "/") or q.startswith(p + "/") for q in paths):
                    n += 1
            if n >= 2:
                return True
        return False

    def after_restart(self, sim, mode):
        # the restarted engine's loops start in any order: in half of the crash runs the sync loop (or one event loop) gets a
        # few turns of its own before the others take anything in
        if mode != "crash":
            return
        r = random.Random("%s:%s:post" % (self.kind, self.k))
        x = r.random()
        if x < 0.4:
            for _ in range(r.randrange(2, 6)):
                sim.step("S")
        elif x < 0.55:
            which = r.choice(("E0", "E1"))
            for _ in range(r.randrange(1, 4)):
                sim.step(which)

    def at_crash(self, sim):
        self.crashed = True
        site = sim.world.crash_site
        if site and site[0] == "storage" and site[2] == sim.state._tag:     # pylint: disable=protected-access
            self.torn = any(e[1] == site[2] and e[3] == site[4] for e in sim.storage.log)
        label = "%s#%d" % (sim.step_log[-1], sim.steps - 1) if sim.step_log else None
        for c in sim.world.calls:
            if c.get("step") == label and c["op"] in S.WRITES and c.get("exc") in (None, "Crash"):
                root = sim.roots[c["side"]]
                for key in ("path", "to", "path_after"):
                    v = c.get(key)
                    if v and v.startswith(root + "/"):
                        self.inflight.append(v[len(root) + 1:])


def evaluate(case, obs, sim, monitors):
    led, cur, plan = monitors[:3]
    probs = list(obs.problems)
    if obs.unhandled:
        probs.append(("exception_escaped_step", obs.unhandled[:2]))
    if cur.problems:
        probs.append(cur.problems[0])
    if obs.trees is None:
        return probs
    L, R = obs.trees
    expect = case.get("expect")
    if expect is not None:
        probs.extend(O.exact_problems(L, expect, "local_tree"))
        probs.extend(O.exact_problems(R, expect, "remote_tree"))
        cp = O.conflicted_paths(L, R)
        if cp:
            probs.append(("conflicted_artefact_after_crash", cp[:3]))
    else:
        probs.extend(O.converged_problems(L, R))
    lost = led.lost(L, R)
    if lost:
        probs.append(("content_lost", lost[:3]))
    return probs


def run(case, acc=None, count=True, kind=None, k=None):
    acc = acc or Acc()
    mons = []
    storage = "sqlite" if case.get("index", 0) % 4 == 1 else "mock"

    def fac():
        mons[:] = [O.ContentLedger(), O.CursorMonitor(), CrashPlan(kind, k)]
        return mons
    holder = {}

    def ev(case_, obs, sim, monitors):
        holder["crashes"] = list(obs.crashes)
        holder["w"] = sim.storage.writes - monitors[2].w0
        holder["p"] = sim.world.engine_writes - monitors[2].p0
        holder["k16"] = monitors[2].k16()
        holder["k16_after"] = monitors[2].k16_after()
        holder["k17"] = monitors[2].k17()
        return evaluate(case_, obs, sim, monitors)
    probs = E.run_one(case, acc, ev, monitors_factory=fac, sim_kwargs={"storage": storage}, count=False,
                      on_crash="restart")
    return probs, holder, storage


def enumerate_case(case, acc):
    """Baseline run (no crash) to size the enumeration, then one run per crash instant."""
    probs, h, storage = run(case)
    if probs is None:
        acc.errors.append("baseline harness error")
        return
    if probs:
        acc.violation("baseline:" + probs[0][0], probs[:3], case)
        return
    w, p = h["w"], h["p"]
    acc.count("histories")
    acc.add("storage_backends", storage)
    acc.add("flavours", case["flavour"])
    acc.add("families", case["family"])
    sig = W.signature(case)
    for kind, n in (("storage", w), ("provider", p)):
        for k in range(1, n + 1):
            probs, hh, _ = run(case, kind=kind, k=k)
            acc.evaluations += 1
            if probs is None:
                acc.errors.append("harness error at %s crash %d" % (kind, k))
                continue
            if hh.get("crashes"):
                acc.count("crash_instants_" + kind)
                acc.sigs.add("%s:%s:%d" % (sig, kind, k))
                site = hh["crashes"][0]
                acc.add("crash_sites", "%s:%s" % (site[0], site[1]))
            else:
                acc.count("crash_instants_not_reached")
            if probs:
                c = dict(case)
                c["crash"] = [kind, k]
                if hh.get("k16"):
                    acc.count("failures_attributed_K16")
                    acc.count("k16_failures_with_a_user_op_after_the_crash" if hh.get("k16_after") else
                              "k16_failures_with_all_user_ops_before_the_crash")
                    acc.known_hit("K16", {"case": W.brief_case(case), "crash": [kind, k], "problem": str(probs[0])[:300]})
                elif hh.get("k17"):
                    acc.count("failures_attributed_K17")
                    acc.known_hit("K17", {"case": W.brief_case(case), "crash": [kind, k], "problem": str(probs[0])[:300]})
                else:
                    acc.violation(probs[0][0], probs[:3] + [("crash", kind, k, hh.get("crashes"))], c)
            elif hh.get("k16"):
                acc.count("k16_predicate_true_but_run_passed")
                acc.count("k16_passed_with_a_user_op_after_the_crash" if hh.get("k16_after") else
                          "k16_passed_with_all_user_ops_before_the_crash")
            elif hh.get("k17"):
                acc.count("k17_predicate_true_but_run_passed")


def shard(ctx, acc):
    plan = META["plan"][ctx.tier]
    flavours = ("oo", "pp", "po", "op", "of")
    for i in F.indices(ctx, plan["cases"]):
        case = F.make_case(ctx.seed, PROP, i, flavours=flavours, nops=(3, 7))
        hz, _ = F.classify(case)
        if hz:
            acc.inconclusive.append("generator bug: main-family case %d has hazard %s" % (i, sorted(hz)))
            continue
        enumerate_case(case, acc)
        acc.sample(W.brief_case(case), cap=3)


def conclusive(acc, tier):
    out = []
    if not acc.counters.get("crash_instants_storage"):
        out.append("no storage-write crash instant was reached")
    if not acc.counters.get("crash_instants_provider"):
        out.append("no provider-write crash instant was reached")
    return out


def replay(rep):
    case = rep.get("case") or {}
    kind, k = (case.get("crash") or [None, None])
    hits = 0
    for j in range(6):
        c = dict(case)
        c["sim_seed"] = case.get("sim_seed", 0) + j
        probs, hh, _ = run(c, kind=kind, k=k)
        if probs:
            hits += 1
            if hits == 1:
                print("reproduced:", str(probs[:3])[:1200])
    print("reproduction rate %d/6" % hits)
    return 1 if hits else 0
