"""C13 Path algebra: join/split/normalise/subpath/replace/match laws hold for all paths."""
import itertools
import random

from vlib import load as _load

cloudsync = _load.load()

from cloudsync.providers.mock import MockProvider           # noqa: E402

PROP = "C13"
META = {
    "level": "exploration",
    "engine": "component",
    "claim": "Held on everything enumerated: the seven laws (normalise idempotent; split-then-join equivalent; join-then-subpath gives back the relative part; prefix siblings are not subpaths; replace_path moves exactly the relative part; paths_match is reflexive, symmetric, transitive, equal to equality of normalised forms, case-folded only on case-insensitive providers with the leaf's display case preserved; translate there-and-back is the identity modulo path equality inside the roots and None outside) are evaluated on every string up to length 5 (unary) / 3 (binary) / 2 (ternary) over {sep, alt-sep, a, A, b, '.', space, e-acute, ':'} for 8 helper configurations, plus long random paths.",
    "note": "Trusted: the laws as written here from the statement. Domain: folders of the binary/ternary laws are taken from the image of normalize_path (absolute provider paths), relative parts contain at least one non-separator character and, where drive letters are enabled, do not read like a drive ('X:'). Still testing, not proof: 'exhaustive' refers to the bounded alphabet and lengths only.",
    "technique": "runtime monitoring: law oracle evaluated exhaustively over a bounded string universe and on random long paths, against the real helper functions",
    "plan": {"quick": {"shards": 16, "timeout": 600, "ulen": 5, "blen": 3, "random": 20000},
             "thorough": {"shards": 32, "timeout": 3000, "ulen": 6, "blen": 4, "random": 2000000}},
    "rule": "evaluation = one law instance on one (configuration, argument tuple); configurations = case-sensitive x "
            "{(sep '/', alt '\\\\'), (sep '\\\\', alt '/')} x win_paths; arguments enumerated exhaustively up to the stated "
            "lengths and split over shards by index; distinct = distinct (law, configuration, arguments); non-trivial = the "
            "argument contains at least one separator or differs from its normal form",
    "assumptions": ["path helper semantics are those of cloudsync.provider.Provider on a MockProvider subclass with sep/alt_sep/win_paths overridden"],
    "exhaustive": True,
}

CONFIGS = [(cs, sep, alt, win) for cs in (True, False) for sep, alt in (("/", "\\"), ("\\", "/")) for win in (False, True)]


def make_provider(cs, sep, alt, win):
    cls = type("P_%s_%s_%s" % (cs, "fs" if sep == "/" else "bs", win), (MockProvider,), {"sep": sep, "alt_sep": alt, "win_paths": win})
    p = cls(False, cs)
    return p


def alphabet(sep, alt):
    return [sep, alt, "a", "A", "b", ".", " ", "é", ":"]


def strings(alpha, maxlen):
    for n in range(0, maxlen + 1):
        for t in itertools.product(alpha, repeat=n):
            yield "".join(t)


def has_name(s, sep, alt):
    return any(c not in (sep, alt) for c in s)


def drive_like(s, sep, alt):
    """with drive letters, a part whose first component reads 'X:...' names a drive, i.e. it is not a relative part"""
    t = s.lstrip(sep + alt)
    return t[1:2] == ":"


class Laws:
    def __init__(self, cfg):
        self.cfg = cfg
        self.cs, self.sep, self.alt, self.win = cfg
        self.p = make_provider(*cfg)
        self.twin = make_provider(True, cfg[1], cfg[2], cfg[3])        # same conventions, case-sensitive: canonical forms
        self.n = 0
        self.nontrivial = 0
        self.fail = []

    def bad(self, law, *args):
        if len(self.fail) < 6:
            self.fail.append((law, self.cfg) + tuple(repr(a) for a in args))

    # ---- unary
    def unary(self, s):
        p = self.p
        self.n += 4
        if self.sep in s or self.alt in s:
            self.nontrivial += 1
        try:
            n = p.normalize_path(s)
            if p.normalize_path(n) != n:
                self.bad("L1 normalize not idempotent", s, n, p.normalize_path(n))
            nd = p.normalize_path(s, for_display=True)
            if p.normalize_path(nd, for_display=True) != nd:
                self.bad("L1 normalize(for_display) not idempotent", s, nd)
            # L6d: the display form differs from the plain form in the leaf's letter case only: it is equivalent to the
            # input, normalising it gives the plain form, and display equality agrees with plain equality on (s, plain form)
            self.n += 3
            if p.normalize_path(nd) != n:
                self.bad("L6d normalize(display form) is not the plain normal form", s, nd, n)
            if not p.paths_match(nd, s):
                self.bad("L6d display form not equivalent to the input", s, nd)
            if p.paths_match(s, n) and not self.cs and n != self.sep and \
                    p.normalize_path(n, for_display=True).lower() != nd.lower():
                self.bad("L6d display forms of equivalent paths differ in more than letter case", s, nd, n)
            d, b = p.split(s)
            j = p.join(d, b)
            if not p.paths_match(j, s):
                self.bad("L2 split-then-join not equivalent", s, (d, b), j)
            if not p.paths_match(s, s):
                self.bad("L6 not reflexive", s)
            # L6 case folding and display case
            sw = s.swapcase()
            if sw != s:
                self.n += 1
                m = p.paths_match(s, sw)
                if self.cs and m:
                    self.bad("L6 case-sensitive provider matched case variants", s, sw)
                if not self.cs and not m:
                    self.bad("L6 case-insensitive provider did not match case variants", s, sw)
            # L3b: a path equal to the folder (under the provider's own equality) is "inside" it with an empty relative
            # part, never strictly inside; canonical separators, any letter case the provider considers equal
            canon = self.twin.normalize_path(s)
            for a in {canon, canon.swapcase(), canon.lower()}:
                if p.paths_match(a, canon):
                    self.n += 2
                    r0 = p.is_subpath(a, canon)
                    if r0 != self.sep:
                        self.bad("L3b equal path not reported as (non-strictly) inside", a, canon, r0)
                    if p.is_subpath(a, canon, strict=True):
                        self.bad("L3b equal path reported as strictly inside", a, canon)
                    if canon != self.sep:
                        try:
                            rp = p.replace_path(canon, a, self.sep + "g")
                            if not p.paths_match(rp, self.sep + "g"):
                                self.bad("L5 replace_path of the folder itself", a, canon, rp)
                        except ValueError as e:
                            self.bad("L5 replace_path refused an equal path", a, canon, str(e)[:60])
            if not self.cs and has_name(s, self.sep, self.alt):
                self.n += 1
                leaf = p.basename(p.normalize_path_separators(s))
                if p.basename(nd) != leaf:
                    self.bad("L6 for_display lost the leaf's case", s, nd, leaf)
        except Exception as e:      # noqa
            self.bad("exception in unary laws", s, type(e).__name__, str(e)[:100])

    # ---- binary: folder f (normalised absolute), relative r
    def binary(self, f, r, g):
        p = self.p
        self.n += 4
        self.nontrivial += 1
        try:
            t = p.join(f, r)
            rel = p.is_subpath(f, t)
            if not rel:
                self.bad("L3 join(f,r) not inside f", f, r, t)
            else:
                if not p.paths_match(p.join(f, rel), t):
                    self.bad("L3 join(f, is_subpath(f,t)) != t", f, r, rel)
                if not p.paths_match(rel, self.sep + r):
                    self.bad("L3 relative part differs", f, r, rel)
            if f != self.sep:
                for sib in (f + "x", f + "x" + self.sep + "q"):
                    if p.is_subpath(f, sib):
                        self.bad("L4 prefix sibling reported inside", f, sib)
            rp = p.replace_path(t, f, g)
            if not p.paths_match(rp, p.join(g, r)):
                self.bad("L5 replace_path moved something else", f, r, g, rp)
        except Exception as e:      # noqa
            self.bad("exception in binary laws", f, r, g, type(e).__name__, str(e)[:100])

    def match_pair(self, a, b):
        p = self.p
        self.n += 2
        try:
            m = p.paths_match(a, b)
            if m != p.paths_match(b, a):
                self.bad("L6 not symmetric", a, b)
            if m != (p.normalize_path(a) == p.normalize_path(b)):
                self.bad("L6 paths_match != equality of normal forms", a, b)
            return m
        except Exception as e:      # noqa
            self.bad("exception in paths_match", a, b, type(e).__name__)
            return False


def translate_laws(cfg_l, cfg_r, rels, acc_fail, counter):
    """L7 on a real CloudSync over two providers with the given helper configurations."""
    from vlib import sim as S      # noqa  (module import installs nothing)
    pl, pr = make_provider(*cfg_l), make_provider(*cfg_r)
    for p in (pl, pr):
        p.connect({"key": "val"})
    for rl, rr in ((pl.sep + "local", pr.sep + "remote"), (pl.sep + "a" + pl.sep + "b", pr.sep + "r")):
        cs = cloudsync.CloudSync((pl, pr), (rl, rr), storage=None, sleep=None)
        try:
            # the roots themselves, in every letter case the provider considers equal, are inside the roots
            for spelling in {rl, rl.swapcase(), rl.upper()}:
                if pl.paths_match(spelling, rl):
                    counter[0] += 1
                    there = cs.translate(1, spelling)
                    if there is None or not pr.paths_match(there, rr):
                        acc_fail.append(("L7 root spelling does not translate to the other root", cfg_l, cfg_r, repr(spelling), repr(there)))
            for r in rels:
                counter[0] += 2
                lp = pl.join(rl, r.replace(pr.sep, pl.sep) if pl.sep != pr.sep else r)
                try:
                    there = cs.translate(1, lp)
                    if there is None:
                        acc_fail.append(("L7 inside path translated to None", cfg_l, cfg_r, repr(lp)))
                        continue
                    back = cs.translate(0, there)
                    if back is None or not pl.paths_match(back, lp):
                        acc_fail.append(("L7 there-and-back differs", cfg_l, cfg_r, repr(lp), repr(there), repr(back)))
                    out = rl + "x" + pl.sep + r.lstrip(pl.sep + pl.alt_sep)
                    if cs.translate(1, out) is not None:
                        acc_fail.append(("L7 outside path translated", cfg_l, cfg_r, repr(out), repr(cs.translate(1, out))))
                    if cs.translate(1, pl.sep + "zz" + pl.sep + "q") is not None:
                        acc_fail.append(("L7 outside path translated", cfg_l, cfg_r, "/zz/q"))
                except Exception as e:      # noqa
                    acc_fail.append(("exception in translate", cfg_l, cfg_r, repr(lp), type(e).__name__, str(e)[:80]))
                if len(acc_fail) > 6:
                    return
        finally:
            from cloudsync.event import EventManager
            for p in (pl, pr):
                EventManager._provider_guard.remove(p)          # pylint: disable=protected-access
            cs.done()


def shard(ctx, acc):
    plan = META["plan"][ctx.tier]
    rng = ctx.rng("random")
    for ci, cfg in enumerate(CONFIGS):
        L = Laws(cfg)
        alpha = alphabet(cfg[1], cfg[2])
        # unary, exhaustive up to ulen, split over shards
        for i, s in enumerate(strings(alpha, plan["ulen"])):
            if i % ctx.nshards == ctx.shard:
                L.unary(s)
        # binary: folders from the image of normalize_path of strings up to blen; relatives up to blen with a name
        folders = sorted({L.p.normalize_path(s) for s in strings(alpha, plan["blen"])})
        rels = [s for s in strings(alpha, plan["blen"]) if has_name(s, cfg[1], cfg[2])
                and not (cfg[3] and drive_like(s, cfg[1], cfg[2]))]
        k = 0
        for f in folders:
            for r in rels:
                k += 1
                if k % ctx.nshards == ctx.shard:
                    L.binary(f, r, folders[(k * 7) % len(folders)])
        # pairs / triples for paths_match
        small = list(strings(alpha, 2))
        k = 0
        for a in small:
            for b in small:
                k += 1
                if k % ctx.nshards != ctx.shard:
                    continue
                m = L.match_pair(a, b)
                if m:
                    for c in small[:: 3]:
                        L.n += 1
                        if L.p.paths_match(b, c) and not L.p.paths_match(a, c):
                            L.bad("L6 not transitive", a, b, c)
        # long random paths
        for _ in range(plan["random"] // len(CONFIGS) // ctx.nshards + 1):
            s = "".join(rng.choice(alpha + ["a", "b", "c", "d"]) for _ in range(rng.randrange(6, 40)))
            L.unary(s)
            f = L.p.normalize_path("".join(rng.choice(alpha) for _ in range(rng.randrange(1, 12))))
            r = "".join(rng.choice(alpha) for _ in range(rng.randrange(1, 12)))
            if has_name(r, cfg[1], cfg[2]) and not (cfg[3] and drive_like(r, cfg[1], cfg[2])):
                L.binary(f, r, L.p.normalize_path("".join(rng.choice(alpha) for _ in range(rng.randrange(1, 8)))))
        acc.evaluations += L.n
        acc.count("law_evaluations", L.n)
        acc.count("nontrivial_arguments", L.nontrivial)
        acc.add("configurations", "cs=%s sep=%r alt=%r win=%s" % cfg)
        acc.sigs.add("cfg%d:shard%d:n%d" % (ci, ctx.shard, L.n))
        for f in L.fail:
            acc.violation(f[0], f[1:], {"law": f[0], "cfg": list(cfg), "args": f[2:]})
    # L7 translate on real CloudSync objects (one pair of configurations per shard)
    pairs = [(a, b) for a in CONFIGS for b in CONFIGS]
    fails, counter = [], [0]
    for i, (a, b) in enumerate(pairs):
        if i % ctx.nshards == ctx.shard:
            rels = [s for s in strings(alphabet(b[1], b[2]), 3) if has_name(s, b[1], b[2])
                    and not ((a[3] or b[3]) and drive_like(s, b[1], b[2]))][:: 5]
            translate_laws(a, b, rels, fails, counter)
    acc.evaluations += counter[0]
    acc.count("translate_evaluations", counter[0])
    for f in fails[:6]:
        acc.violation(f[0], f[1:], {"law": f[0], "args": [repr(x) for x in f[1:]]})
    if ctx.shard == 0:
        acc.sample({"law": "L3", "cfg": "cs=True sep='/' alt='\\\\' win=False", "folder": "/a", "relative": "b\\A",
                    "join": "/a/b/A", "is_subpath": "/b/A"})
        acc.sample({"law": "L6", "cfg": "cs=False", "a": "/A/b", "b": "/a/B", "match": True})


def conclusive(acc, tier):
    out = []
    if acc.counters.get("law_evaluations", 0) < 100000:
        out.append("fewer than 100000 law evaluations")
    if not acc.counters.get("translate_evaluations"):
        out.append("translate laws never evaluated")
    return out


def coverage_extra(acc, tier):
    return {"distinct_nontrivial": acc.counters.get("nontrivial_arguments", 0),
            "exhaustive": True,
            "explanation": "exhaustive over the stated alphabet/lengths per configuration; distinct_nontrivial counts argument tuples containing a separator (each enumerated once)"}


def replay(rep):
    c = rep.get("case") or {}
    print("law instance:", c)
    if "cfg" in c and c.get("args"):
        L = Laws(tuple(c["cfg"]))
        args = [eval(a) for a in c["args"]]        # reprs of plain strings written by this check
        try:
            if len(args) >= 3 and c["law"].startswith(("L3", "L4", "L5")):
                L.binary(args[0], args[1], args[2] if len(args) > 2 else args[0])
            else:
                L.unary(args[0])
        except Exception as e:      # noqa
            print("exception", e)
        print("failures:", L.fail)
        return 1 if L.fail else 0
    return 2
