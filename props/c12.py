"""C12 Root confinement: nothing outside the sync roots is synced or modified."""
import random

from vlib import engine_check as E
from vlib import oracles as O
from vlib import sim as S
from vlib import workload as W
from vlib.runner import Monitor
from vlib.shard import Acc

PROP = "C12"
META = {
    "level": "exploration",
    "claim": "Held on the executed runs: in histories mixing operations inside the root, outside it (another folder, prefix-sibling folders '/localX' '/local2', the account root) and moves across the boundary in both directions (files, and folders with children in windows of their own), with roots given by path or by id, event filtering on or off and a custom translate that declines a subfolder, every engine-issued create/mkdir/upload/rename/delete targets an object whose path (before and, for rename, after) lies inside that side's root by the harness's own component-wise test; everything outside the roots is byte-identical before and after every stretch of engine steps; the peer's root tree equals the dict model of the inside operations (moved out = deleted, moved in = created with its children); declined paths are untouched on both sides; (DECL family) with a folder 'private' declined from the start on both sides (each side holding its own, partly same-named, files) and a folder 'late' that is synchronised first and declined from a flip point on, user edits/creates/deletes/renames inside the zones on either side and a synchronised file moved into a zone cause no effective engine write inside either zone on either side, each side's zones equal that side's own user model at the quiet state, and an undeclined control file keeps synchronising. Both sides modifying the same previously synchronised file of the late-declined folder is finding K23; (ROOT2 family) with one side moving a synchronised file or folder out of its root while the other side deletes / renames its own copy in the same window (either order, random engine steps in between), every effective engine write names an object inside the root at the moment of the call and everything outside the roots stays as the users left it. The other side *editing* the file is finding K26 (the edit is uploaded into the moved-out file), creating a child in the folder is finding K27 (the engine never becomes quiet).",
    "note": "Trusted: the harness's own prefix test (split on '/', compare components), not Provider.is_subpath. One-sided histories (either side) so that the expected peer tree is a plain model; folder moves across the boundary are isolated by quiescence like folder renames elsewhere (hazard HD).",
    "technique": "runtime monitoring: call ledger with an independent inside-root predicate + outside-snapshot invariance + mirror model of inside operations",
    "plan": {"quick": {"shards": 16, "timeout": 600, "cases": 6000},
             "thorough": {"shards": 32, "timeout": 3000, "cases": 200000}},
    "rule": "case = one-sided history of 5-12 ops (inside ops, outside ops in 4 zones, move-out, move-in; files and folders) x "
            "flavour {oo, of, fo, pp, po, op} x root-by-path|root-by-id x translate {default, declines 'private'} x "
            "schedule shape; + cases//4 DECL histories (3-8 ops in/into declined zones by both sides, owner-disjoint) and cases//16 contested ones (K23 by predicate); + cases//4 ROOT2 races (peer op round-robin over write/rename/create_child/rename_folder/delete; write -> K26, create_child -> K27 by predicate and symptom); distinct = distinct signature; non-trivial = >= 1 boundary crossing or outside op and >= 1 engine write",
    "assumptions": ["roots '/local' and '/remote'; outside zones '/other', '/localX', '/local2', account root"],
}

ZONES = {0: ("//other", "//localX", "//local2", "/"), 1: ("//other", "//remoteX", "//remote2", "/")}
FLAVS = ("oo", "of", "fo", "pp", "po", "op")


def inside(root, path):
    """component-wise: path is the root or below it"""
    if path is None:
        return False
    r = [c for c in root.split("/") if c]
    p = [c for c in path.split("/") if c]
    return p[:len(r)] == r


def make_case(seed, index, roundtrip=False):
    rng = random.Random("%s:C12:%d:%s" % (seed, index, roundtrip))
    g = W.Gen(rng)
    flavour = FLAVS[index % len(FLAVS)]
    by_id = (index // len(FLAVS)) % 2 == 1
    decline = (index // (2 * len(FLAVS))) % 3 == 2
    shape = W.SHAPES[(index // (6 * len(FLAVS))) % len(W.SHAPES)]
    side = rng.randrange(2)
    zones = ZONES[side]
    base, m = g.base_tree(side, rng.choice((0, 2, 4)))
    g._norename, g._chain, g._pathid_sides = set(), set(), {k for k in (0, 1) if flavour[k] == "p"}     # pylint: disable=protected-access
    outside = W.TreeModel()             # keyed by absolute-convention path '//zone/name'
    sched = [["U", {"side": side, "op": "mkdir", "path": z, "obj": 0}] for z in zones if z != "/"]
    for z in zones:
        if z != "/":
            outside.t[z] = ("dir",)
    sched.append(["Q"])
    crossings = 0
    came_from_inside = set()            # outside folders (and what is below them) that were moved out of the root earlier
    k21 = False
    renamed, deleted = set(), set()
    hopped = set()
    for _ in range(rng.randrange(5, 13)):
        r = rng.random()
        op = None
        if r < 0.35:
            op = g.gen_op(m, side, None, {"create": 4, "write": 3, "rename": 2, "delete": 2, "mkdir": 2, "rmdir": 1, "rendir": 0},
                          renamed, deleted)
        elif r < 0.6:
            z = rng.choice(zones)
            name = g.names.fresh("x")
            p = (z.rstrip("/") + "/" + name) if z != "/" else "//" + name
            k = rng.random()
            files = [q for q, v in outside.t.items() if v[0] == "file"]
            if k < 0.5 or not files:
                if rng.random() < 0.3:
                    op = {"side": side, "op": "mkdir", "path": p, "obj": 0}
                    outside.t[p] = ("dir",)
                else:
                    op = {"side": side, "op": "create", "path": p, "data": g.contents.fresh(side), "obj": 0}
                    outside.t[p] = ("file", op["data"])
            elif k < 0.8:
                q = rng.choice(files)
                op = {"side": side, "op": "write", "path": q, "data": g.contents.fresh(side), "obj": 0}
                outside.t[q] = ("file", op["data"])
            else:
                q = rng.choice(files)
                op = {"side": side, "op": "delete", "path": q, "obj": 0}
                del outside.t[q]
        elif r < 0.8:
            # move out: an inside file or folder to a fresh outside name
            cands = [q for q in m.t if q not in getattr(g, "_chain", set()) or side not in g._pathid_sides]     # pylint: disable=protected-access
            if side in g._pathid_sides:                                                                  # pylint: disable=protected-access
                # path-id acting side: an object that crossed the boundary in this window does not cross again before the
                # next quiet point (a chain of renames of one object inside a window is hazard HC, finding K15)
                cands = [q for q in cands if q not in hopped]
            if not cands:
                continue
            q = rng.choice(cands)
            z = rng.choice([zz for zz in zones if zz != "/"])
            dst = z + "/" + g.names.fresh("o")
            isdir = m.t[q] == ("dir",)
            moved = [q] + m.kids(q)
            for old in moved:
                outside.t[dst + old[len(q):]] = m.t.pop(old)
                m.obj.pop(old, None)
            if isdir:
                came_from_inside.add(dst)
            op = {"side": side, "op": "rendir" if isdir else "rename", "path": q, "to": dst, "obj": 0, "cross": "out"}
            hopped.add(dst)
            crossings += 1
        else:
            # move in: an outside file or folder (not a zone folder itself) to a fresh inside name
            cands = [q for q in outside.t if q.count("/") >= 3 or (q.startswith("//") and q.count("/") == 2 and q not in zones)]
            cands = [q for q in cands if not any(q.startswith(o + "/") for o in cands if o != q)]

            def round_trip(q):
                return any(q == o or q.startswith(o + "/") for o in came_from_inside) and outside.t[q] == ("dir",)
            if not roundtrip:
                # a folder that was moved out of the root earlier is not moved back in (hazard HO, finding K21)
                cands = [q for q in cands if not round_trip(q)]
            if side in g._pathid_sides:                                                                  # pylint: disable=protected-access
                cands = [q for q in cands if q not in hopped]
            if not cands:
                continue
            q = rng.choice(cands)
            k21 = k21 or round_trip(q)
            par = rng.choice([""] + [d for d in m.dirs() if d.count("/") < 2])
            name = g.names.fresh("i")
            dst = (par + "/" + name) if par else name
            isdir = outside.t[q] == ("dir",)
            moved = [q] + [k for k in outside.t if k.startswith(q + "/")]
            for old in moved:
                m.t[dst + old[len(q):]] = outside.t.pop(old)
            op = {"side": side, "op": "rendir" if isdir else "rename", "path": q, "to": dst, "obj": 0, "cross": "in"}
            hopped.add(dst)
            g._chain = getattr(g, "_chain", set()) | {dst}                                                # pylint: disable=protected-access
            crossings += 1
        if op is None:
            continue
        if op["op"] == "rendir":
            sched += [["Q"], ["U", op], ["Q"]]
            g._chain = set()                                                                             # pylint: disable=protected-access
            hopped = set()
        else:
            sched.append(["U", op])
            gap = g.gap(shape)
            sched.extend(gap)
            if ["Q"] in gap:
                g._chain = set()                                                                         # pylint: disable=protected-access
                hopped = set()
    expect = dict(m.t)
    if decline:
        expect = {k: v for k, v in expect.items() if not (k == "private" or k.startswith("private/"))}
    return {"family": "ROOT%d" % side, "flavour": flavour, "shape": shape, "base": base, "base_side": side, "sched": sched,
            "expect_inside": dict(m.t), "expect_peer": expect, "by_id": by_id, "decline": decline, "index": index,
            "sim_seed": rng.getrandbits(32), "crossings": crossings, "k21": k21}


class OutsideWatch(Monitor):
    """everything outside the roots is identical before and after every stretch of engine steps"""

    def __init__(self):
        self.last = None
        self.problems = []
        self.checks = 0

    def snap(self, sim):
        out = []
        for side in (0, 1):
            t = sim.whole_tree(side)
            root = sim.roots[side]
            out.append({k: v for k, v in t.items() if not inside(root, k)})
        return out

    def after_user(self, sim, rec):
        self.last = self.snap(sim)

    def before_user(self, sim, op):
        self.compare(sim)

    def at_quiescence(self, sim, final):
        self.compare(sim)

    def compare(self, sim):
        if self.last is None:
            return
        cur = self.snap(sim)
        self.checks += 1
        for side in (0, 1):
            if cur[side] != self.last[side] and len(self.problems) < 3:
                ks = [k for k in set(cur[side]) | set(self.last[side]) if cur[side].get(k) != self.last[side].get(k)]
                self.problems.append(("outside_object_changed_by_engine", side, [(k, O.short(self.last[side].get(k)), O.short(cur[side].get(k))) for k in ks[:3]]))
        self.last = cur


def declining_translate(cs, side, path):
    # a nested sync owns 'private': decline it in both directions
    root = cs.roots[1 - side]
    rel = cs.providers[1 - side].is_subpath(root, path)
    if rel and (rel.strip("/") == "private" or rel.strip("/").startswith("private/")):
        return None
    return type(cs).__mro__[1].translate(cs, side, path)


def evaluate(case, obs, sim, monitors):
    ow = monitors[0]
    probs = list(obs.problems)
    if obs.unhandled:
        probs.append(("exception_escaped_step", obs.unhandled[:2]))
    if ow.problems:
        probs.append(ow.problems[0])
    for c in sim.world.calls:
        if c["op"] not in S.WRITES:
            continue
        root = sim.roots[c["side"]]
        paths = [c.get("path")] + ([c["to"]] if c.get("to") else [])
        for p in paths:
            if p is None:
                if c.get("ok") and c["op"] in ("upload", "rename", "delete"):
                    continue        # id no longer names an object (already gone): nothing was touched
                continue
            if not inside(root, p) and (c.get("ok") or c.get("exc") not in (None,)):
                if c.get("ok") and not c.get("ev") and c["op"] == "mkdir":
                    continue        # mkdir of an existing folder is a no-op (root validation)
                probs.append(("engine_write_outside_root", O.brief_call(c)))
                break
    if obs.trees is None:
        return probs
    side = int(case["family"][-1])
    probs.extend(O.exact_problems(obs.trees[side], case["expect_inside"], "origin_root_tree"))
    probs.extend(O.exact_problems(obs.trees[1 - side], case["expect_peer"], "peer_root_tree"))
    return probs


def run(case, acc=None, count=True):
    acc = acc or Acc()
    mons = []

    def fac():
        mons[:] = [OutsideWatch()]
        return mons
    kw = {"use_root_oids": bool(case.get("by_id"))}
    if case.get("decline"):
        kw["translate"] = declining_translate
    if case.get("decline"):
        # make sure the declined folder exists with content on the acting side
        side = int(case["family"][-1])
        case = dict(case)
        pre = [["U", {"side": side, "op": "mkdir", "path": "private", "obj": 0}],
               ["U", {"side": side, "op": "create", "path": "private/secret.txt", "data": b"secret-%d" % case["index"], "obj": 0}]]
        case["sched"] = pre + case["sched"]
        case["expect_inside"] = dict(case["expect_inside"], **{"private": ("dir",), "private/secret.txt": ("file", b"secret-%d" % case["index"])})
    probs = E.run_one(case, acc, evaluate, monitors_factory=fac, sim_kwargs=kw, count=count)
    if count and mons:
        acc.count("outside_snapshots_compared", mons[0].checks)
        acc.count("boundary_crossings", case.get("crossings", 0))
        acc.add("root_given_by", "id" if case.get("by_id") else "path")
        acc.add("translate", "declines private" if case.get("decline") else "default")
    return probs


def shard(ctx, acc):
    plan = META["plan"][ctx.tier]
    from vlib import family as F
    for i in F.indices(ctx, plan["cases"]):
        case = make_case(ctx.seed, i)
        probs = run(case, acc)
        if probs is None:
            continue
        acc.sample(W.brief_case(case))
        if probs:
            acc.violation(probs[0][0], probs[:4], case)
    # hazard-seeking: folders that were moved out are moved back in (finding K21, attributed by input predicate)
    for i in F.indices(ctx, plan["cases"] // 8):
        case = make_case(ctx.seed, i, roundtrip=True)
        probs = run(case, acc)
        if probs is None:
            continue
        acc.count("roundtrip_cases")
        if probs:
            if case["k21"]:
                acc.count("failures_attributed_K21")
                acc.known_hit("K21", W.brief_case(case))
            else:
                acc.violation("seek:" + probs[0][0], probs[:4], case)
    _shard_decl(ctx, acc, plan)
    _shard_root2(ctx, acc, plan)


def _shard_decl(ctx, acc, plan):
    from vlib import family as F
    for i in F.indices(ctx, plan["cases"] // 4):
        case = decl_case(ctx.seed, i)
        probs = run_decl(case, acc)
        if probs is None:
            continue
        if i < 2:
            acc.sample({"family": case["family"], "flavour": case["flavour"],
                        "ops": [[e[1]["side"], e[1]["op"], e[1]["path"]] for e in case["sched"] if e[0] == "U"]})
        if probs:
            acc.violation(probs[0][0], probs[:4], _decl_brief(case))
    for i in F.indices(ctx, plan["cases"] // 16):
        case = decl_case(ctx.seed, i, contest=True)
        probs = run_decl(case, acc)
        if probs is None:
            continue
        acc.count("decl_contest_cases")
        if probs:
            if case["k23"]:
                acc.count("failures_attributed_K23")
                acc.known_hit("K23", {"flavour": case["flavour"],
                                      "ops": [[e[1]["side"], e[1]["op"], e[1]["path"]] for e in case["sched"] if e[0] == "U"]})
            else:
                acc.violation("seek:" + probs[0][0], probs[:4], _decl_brief(case))


def _decl_brief(case):
    c = dict(case)
    c["decl"] = True
    return c


def _shard_root2(ctx, acc, plan):
    from vlib import family as F
    for i in F.indices(ctx, plan["cases"] // 4):
        case = root2_case(ctx.seed, i)
        probs = run_root2(case, acc)
        if probs is None:
            continue
        if probs:
            kinds = set(q[0] for q in probs)
            if case["peer_op"] == "write" and kinds <= {"outside_object_changed_by_engine", "engine_write_outside_root"}:
                acc.count("failures_attributed_K26")
                acc.known_hit("K26", {"flavour": case["flavour"], "mover": case["mover"], "peer_op": "write"})
            elif case["peer_op"] == "create_child" and kinds <= {"not_quiescent"}:
                acc.count("failures_attributed_K27")
                acc.known_hit("K27", {"flavour": case["flavour"], "mover": case["mover"], "peer_op": "create_child"})
            else:
                c = dict(case)
                c["root2"] = True
                acc.violation("root2:" + probs[0][0], probs[:4], c)


def conclusive(acc, tier):
    out = []
    if not acc.counters.get("root2_cases") or not acc.counters.get("root2_engine_writes"):
        out.append("no two-sided boundary race ran")
    if not acc.counters.get("decl_cases") or not acc.counters.get("decl_engine_writes_after_flip"):
        out.append("no declined-zone case ran (or the control file never synchronised)")
    if not acc.counters.get("boundary_crossings"):
        out.append("no boundary crossing was generated")
    if not acc.counters.get("outside_snapshots_compared"):
        out.append("outside snapshots never compared")
    return out


coverage_extra = E.coverage_extra
replay = E.replay_with(lambda c: run_decl(c, count=False) if c.get("decl") else (run_root2(c, count=False) if c.get("root2") else run(c, count=False)))


# ------------------------------------------------------------------------------------------------ declined zones (DECL)
# 'private' is declined from the start; 'late' is synchronised first and declined from a flip point on (a nested sync took
# ownership of it - the situation the engine's own comment in embrace_change describes).  After the flip each side's copy of
# a declined zone evolves by that side's user operations only.

DECL_ZONES = ("private", "late")


def _in_zone(rel, zones):
    rel = rel.strip("/")
    return any(rel == z or rel.startswith(z + "/") for z in zones)


def decl_case(seed, index, contest=False):
    rng = random.Random("%s:C12decl:%d:%s" % (seed, index, contest))
    flavour = FLAVS[index % len(FLAVS)]
    shape = W.SHAPES[(index // len(FLAVS)) % len(W.SHAPES)]
    side = rng.randrange(2)
    g = W.Gen(rng)
    cont = g.contents
    pre = [{"side": side, "op": "mkdir", "path": "late"},
           {"side": side, "op": "create", "path": "late/f1.txt", "data": cont.fresh(side, 700)},
           {"side": side, "op": "create", "path": "late/f2.txt", "data": cont.fresh(side, 12)},
           {"side": side, "op": "mkdir", "path": "late/sub"},
           {"side": side, "op": "create", "path": "late/sub/f3.txt", "data": cont.fresh(side, 3000)},
           {"side": side, "op": "create", "path": "plain.txt", "data": cont.fresh(side, 700)},
           {"side": side, "op": "create", "path": "control.txt", "data": cont.fresh(side, 12)},
           {"side": side, "op": "mkdir", "path": "private"},
           {"side": side, "op": "create", "path": "private/secret.txt", "data": cont.fresh(side, 12)}]
    # the peer has a 'private' of its own
    pre2 = [{"side": 1 - side, "op": "mkdir", "path": "private"},
            {"side": 1 - side, "op": "create", "path": "private/peer.txt", "data": cont.fresh(1 - side, 12)},
            {"side": 1 - side, "op": "create", "path": "private/secret.txt", "data": cont.fresh(1 - side, 700)}]
    # per-side user models of the declined zones + the shared model of the rest
    zone = [dict(), dict()]
    for op in pre:
        if _in_zone(op["path"], DECL_ZONES):
            v = ("dir",) if op["op"] == "mkdir" else ("file", op["data"])
            zone[side][op["path"]] = v
            if _in_zone(op["path"], ("late",)):
                zone[1 - side][op["path"]] = v          # synchronised before the flip
    for op in pre2:
        zone[1 - side][op["path"]] = ("dir",) if op["op"] == "mkdir" else ("file", op["data"])
    shared = {"plain.txt": ("file", pre[5]["data"]), "control.txt": ("file", pre[6]["data"])}
    sched = []
    n_new = [0]
    moved_in = False

    # files synchronised before the flip exist on both sides: unless the case is a 'contest' each of them is edited by one
    # side only afterwards (both sides editing the same one is finding K23)
    owner = {k: rng.randrange(2) for k, v in zone[side].items() if v[0] == "file" and _in_zone(k, ("late",))}
    contested = set()
    touched = [set(), set()]

    def files(s, z):
        return sorted(k for k, v in zone[s].items() if v[0] == "file" and _in_zone(k, (z,))
                      and (contest or owner.get(k, s) == s))

    def touch(s, p):
        if p in owner:
            touched[s].add(p)
            if p in touched[1 - s]:
                contested.add(p)

    for _ in range(rng.randrange(3, 9)):
        r = rng.random()
        s = side if rng.random() < 0.7 else 1 - side
        z = rng.choice(DECL_ZONES)
        op = None
        if r < 0.25 and files(s, z):
            p = rng.choice(files(s, z))
            op = {"side": s, "op": "write", "path": p, "data": cont.fresh(s, rng.choice((12, 700)))}
            zone[s][p] = ("file", op["data"])
            touch(s, p)
        elif r < 0.4 and files(s, z):
            p = rng.choice(files(s, z))
            op = {"side": s, "op": "delete", "path": p}
            del zone[s][p]
            touch(s, p)
        elif r < 0.6:
            n_new[0] += 1
            p = "%s/n%d.txt" % (z, n_new[0])
            op = {"side": s, "op": "create", "path": p, "data": cont.fresh(s, rng.choice((12, 700)))}
            zone[s][p] = ("file", op["data"])
        elif r < 0.75 and files(s, z):
            p = rng.choice(files(s, z))
            n_new[0] += 1
            to = "%s/r%d.txt" % (z, n_new[0])
            op = {"side": s, "op": "rename", "path": p, "to": to}
            zone[s][to] = zone[s].pop(p)
            touch(s, p)
        elif r < 0.85 and not moved_in and "plain.txt" in shared:
            # a synchronised file is moved into a declined zone on the acting side; what happens to the peer's copy of
            # 'plain.txt' is not asserted (the property does not say), only that nothing is written inside the zones
            to = "%s/plain.txt" % z
            op = {"side": side, "op": "rename", "path": "plain.txt", "to": to}
            zone[side][to] = shared.pop("plain.txt")
            moved_in = True
        else:
            # control: an ordinary synchronised file keeps synchronising
            op = {"side": side, "op": "write", "path": "control.txt", "data": cont.fresh(side, 700)}
            shared["control.txt"] = ("file", op["data"])
        sched.append(["U", op])
        sched.extend(g.gap(shape))
    return {"family": "DECL%d" % side, "flavour": flavour, "shape": shape, "pre": pre, "pre2": pre2, "sched": sched,
            "zone": zone, "shared": shared, "moved_in": moved_in, "index": index, "sim_seed": rng.getrandbits(32),
            "k23": bool(contested)}


def run_decl(case, acc=None, count=True):
    acc = acc or Acc()
    from vlib import load as _load
    flip = {"late": False}

    def translate(cs, side, path):
        root = cs.roots[1 - side]
        rel = cs.providers[1 - side].is_subpath(root, path)
        zones = ("private", "late") if flip["late"] else ("private",)
        if rel and _in_zone(rel, zones):
            return None
        return type(cs).__mro__[1].translate(cs, side, path)

    n_unh0 = len(_load.unhandled)
    sim = S.Sim(case["flavour"], rng=random.Random(case["sim_seed"]), translate=translate)
    probs = []
    try:
        for op in case["pre"] + case["pre2"]:
            rec = sim.user(op)
            if not rec.get("ok"):
                acc.errors.append("DECL pre-op rejected: %r" % (rec,))
                return None
        sim.quiesce()
        L = sim.tree(int(case["family"][-1]))
        P = sim.tree(1 - int(case["family"][-1]))
        if "late/sub/f3.txt" not in P or "private/peer.txt" in L or \
                P.get("private/secret.txt") == L.get("private/secret.txt"):
            probs.append(("before_flip_zone_not_as_expected", sorted(P)[:12]))
        flip["late"] = True
        since = len(sim.world.calls)
        for e in case["sched"]:
            if e[0] == "U":
                rec = sim.user(e[1])
                if not rec.get("ok"):
                    # the history is model-generated: an op can only be rejected when the engine changed what it names
                    probs.append(("user_op_rejected_engine_changed_its_target", {k: rec.get(k) for k in ("side", "op", "path", "exc")}))
            elif e[0] in ("E0", "E1", "S"):
                sim.step(e[0])
            elif e[0] == "Q":
                sim.quiesce()
        try:
            steps = sim.quiesce()
        except S.NotQuiescent as x:
            probs.append(("not_quiescent", str(x)))
            steps = None
        unh = [u for u in _load.unhandled[n_unh0:] if u[1] != "Crash"]
        del _load.unhandled[n_unh0:]
        if unh:
            probs.append(("exception_escaped_step", unh[:2]))
        nwrites = 0
        for c in sim.world.calls[since:]:
            if c["op"] not in S.WRITES or not (c.get("ok") and c.get("ev")):
                continue
            nwrites += 1
            root = sim.roots[c["side"]]
            for p in [c.get("path")] + ([c["to"]] if c.get("to") else []):
                if p and p.startswith(root + "/") and _in_zone(p[len(root) + 1:], DECL_ZONES):
                    probs.append(("engine_write_inside_declined_zone", O.brief_call(c)))
                    break
        side = int(case["family"][-1])
        if steps is not None:
            for s in (0, 1):
                t = sim.tree(s)
                got = {k: v for k, v in t.items() if _in_zone(k, DECL_ZONES)}
                want = case["zone"][s]
                if got != {k: tuple(v) for k, v in want.items()}:
                    ks = sorted(k for k in set(got) | set(want) if got.get(k) != (tuple(want[k]) if k in want else None))
                    probs.append(("declined_zone_differs_from_its_own_side_user_model",
                                  "origin" if s == side else "peer", [(k, O.short(want.get(k)), O.short(got.get(k))) for k in ks[:3]]))
                rest = {k: v for k, v in t.items() if not _in_zone(k, DECL_ZONES)}
                want_rest = {k: tuple(v) for k, v in case["shared"].items()}
                if case["moved_in"] and s != side:
                    rest.pop("plain.txt", None)         # not asserted either way
                if rest != want_rest:
                    ks = sorted(k for k in set(rest) | set(want_rest) if rest.get(k) != want_rest.get(k))
                    probs.append(("undeclined_part_not_synchronised", "origin" if s == side else "peer",
                                  [(k, O.short(want_rest.get(k)), O.short(rest.get(k))) for k in ks[:3]]))
        if count:
            acc.evaluations += 1
            acc.count("decl_cases")
            acc.count("decl_user_ops", len([e for e in case["sched"] if e[0] == "U"]))
            acc.count("decl_engine_writes_after_flip", nwrites)
            acc.count("engine_steps", sim.steps)
            acc.add("flavours", case["flavour"])
            acc.sigs.add("decl:" + W.signature(dict(case, base=[])))
        return probs
    except Exception:           # noqa   harness error: never a verdict
        acc.errors.append(S.fmt_exc())
        return None
    finally:
        sim.close()


# -------------------------------------------------------------------------------------- two-sided boundary races (ROOT2)
# One side moves a synchronised object out of its root while the other side changes its own copy of that object in the same
# window.  Only the statement's safety clauses are decided: every engine write names an object inside the root at the moment
# of the call, and everything outside the roots is left exactly as the users put it.

ROOT2_PEER = ("write", "rename", "create_child", "rename_folder", "delete")


def root2_case(seed, index):
    rng = random.Random("%s:C12root2:%d" % (seed, index))
    flavour = FLAVS[index % len(FLAVS)]
    shape = W.SHAPES[(index // len(FLAVS)) % len(W.SHAPES)]
    peer_op = ROOT2_PEER[(index // (len(FLAVS) * len(W.SHAPES))) % len(ROOT2_PEER)]
    mover = rng.randrange(2)
    g = W.Gen(rng)
    cont = g.contents
    folderish = peer_op in ("create_child", "rename_folder")
    pre = [{"side": mover, "op": "mkdir", "path": "//other"}, {"side": mover, "op": "create", "path": "keep.txt", "data": cont.fresh(mover, 12)}]
    if folderish:
        pre += [{"side": mover, "op": "mkdir", "path": "d"}, {"side": mover, "op": "create", "path": "d/f.txt", "data": cont.fresh(mover, 700)}]
        move = {"side": mover, "op": "rendir", "path": "d", "to": "//other/d"}
        if peer_op == "create_child":
            pop = {"side": 1 - mover, "op": "create", "path": "d/new.txt", "data": cont.fresh(1 - mover, 12)}
        else:
            pop = {"side": 1 - mover, "op": "rendir", "path": "d", "to": "e"}
    else:
        pre += [{"side": mover, "op": "create", "path": "f.txt", "data": cont.fresh(mover, 700)}]
        move = {"side": mover, "op": "rename", "path": "f.txt", "to": "//other/f.txt"}
        if peer_op == "write":
            pop = {"side": 1 - mover, "op": "write", "path": "f.txt", "data": cont.fresh(1 - mover, 1500)}
        elif peer_op == "rename":
            pop = {"side": 1 - mover, "op": "rename", "path": "f.txt", "to": "g.txt"}
        else:
            pop = {"side": 1 - mover, "op": "delete", "path": "f.txt"}
    first, second = (move, pop) if rng.random() < 0.5 else (pop, move)
    sched = [["U", first]] + [e for e in g.gap(shape) if e != ["Q"]] + [["U", second]] + [e for e in g.gap(shape) if e != ["Q"]]
    return {"family": "ROOT2", "flavour": flavour, "shape": shape, "pre": pre, "sched": sched, "mover": mover, "peer_op": peer_op,
            "index": index, "sim_seed": rng.getrandbits(32), "by_id": bool(rng.randrange(2))}


def run_root2(case, acc=None, count=True):
    acc = acc or Acc()
    from vlib import load as _load
    n_unh0 = len(_load.unhandled)
    sim = S.Sim(case["flavour"], rng=random.Random(case["sim_seed"]), use_root_oids=bool(case.get("by_id")))
    probs = []
    ow = OutsideWatch()
    try:
        for op in case["pre"]:
            rec = sim.user(op)
            if not rec.get("ok"):
                acc.errors.append("ROOT2 pre-op rejected: %r" % (rec,))
                return None
        sim.quiesce()
        since = len(sim.world.calls)
        rejected = 0
        written = []
        for e in case["sched"]:
            if e[0] == "U":
                ow.compare(sim)
                rec = sim.user(e[1])
                ow.after_user(sim, rec)
                if not rec.get("ok"):
                    rejected += 1       # the engine may legitimately have propagated the other side's op first
                elif e[1].get("data") is not None:
                    written.append(e[1])
            else:
                sim.step(e[0])
        try:
            sim.quiesce()
        except S.NotQuiescent as x:
            probs.append(("not_quiescent", str(x)))
        ow.compare(sim)
        unh = [u for u in _load.unhandled[n_unh0:] if u[1] != "Crash"]
        del _load.unhandled[n_unh0:]
        if unh:
            probs.append(("exception_escaped_step", unh[:2]))
        if ow.problems:
            probs.append(ow.problems[0])
        # no silent loss: bytes a user wrote during the race must still exist somewhere (either account, inside or outside
        # the roots, under any name) once the engine is quiet
        if not any(q[0] == "not_quiescent" for q in probs):
            everything = [v[1] for side in (0, 1) for v in sim.whole_tree(side).values() if v[0] == "file"]
            for op in written:
                if op["data"] not in everything:
                    probs.append(("content_written_during_the_race_exists_nowhere", op["op"], op["path"], O.short(("file", op["data"]))))
        nwrites = 0
        for c in sim.world.calls[since:]:
            if c["op"] not in S.WRITES:
                continue
            nwrites += 1
            root = sim.roots[c["side"]]
            for pth in [c.get("path")] + ([c["to"]] if c.get("to") else []):
                if pth and not inside(root, pth) and c.get("ok") and c.get("ev"):
                    probs.append(("engine_write_outside_root", O.brief_call(c)))
                    break
        if count:
            acc.evaluations += 1
            acc.count("root2_cases")
            acc.count("root2_engine_writes", nwrites)
            acc.count("root2_user_ops_rejected", rejected)
            acc.count("engine_steps", sim.steps)
            acc.add("root2_peer_ops", case["peer_op"])
            acc.sigs.add("root2:%s:%s:%s:%d" % (case["flavour"], case["shape"], case["peer_op"], case["index"]))
        return probs
    except Exception:           # noqa   harness error: never a verdict
        acc.errors.append(S.fmt_exc())
        return None
    finally:
        sim.close()
