"""C11 Sync-state index integrity: id and path lookups always agree with the entries."""
import io
import random

from vlib import engine_check as E
from vlib import family as F
from vlib import oracles as O
from vlib import sim as S
from vlib import workload as W
from vlib.shard import Acc

PROP = "C11"
META = {
    "level": "exploration",
    "claim": "Held on the executed runs: a structural walker over the id index, the (path,id) index and the pending set (and the same facts through lookup_oid / lookup_path / changes) runs after every engine step of generated histories and after every operation of raw state-level sequences in which real provider event streams (both id styles) are duplicated, replayed stale and reordered and interleaved with get_latest / link / finish / discard / split / commit.",
    "note": "Trusted: the walker's reading of the statement (pending = live, not-discarded entries with a change flag and an id). Raw sequences use event streams of real MockProviders, then mangle them: fully random tuples manufacture inputs no provider can produce (folder inside itself) and are not used.",
    "technique": "runtime monitoring: structural invariant walker hooked after every engine step and every raw state operation",
    "plan": {"quick": {"shards": 16, "timeout": 600, "cases": 8000, "raw": 4000},
             "thorough": {"shards": 32, "timeout": 3000, "cases": 200000, "raw": 200000}},
    "rule": "engine part: main-family cases (ONE/DISJ/CONF x flavour x shape) walked after every step; raw part: sequence of "
            "25-60 operations on a SyncState over two MockProviders (user op on a provider, deliver next event / duplicate "
            "/ stale replay / shuffled batch, get_latest, link-as-synced, finish, discard, split, commit); distinct = "
            "distinct signature of the case / of the raw op-kind sequence; non-trivial = >= 1 engine write resp. >= 5 state updates",
    "assumptions": ["single-threaded walks (thread safety is C15)"],
}


def evaluate(case, obs, sim, monitors):
    idx = monitors[0]
    probs = []
    if idx.problems:
        probs.append(("index_corrupt", idx.problems[:2]))
    return probs


def run(case, acc=None, count=True):
    acc = acc or Acc()
    mons = []

    def fac():
        mons[:] = [O.IndexMonitor()]
        return mons
    probs = E.run_one(case, acc, evaluate, monitors_factory=fac, count=count)
    if count and mons:
        acc.count("index_walks_engine", mons[0].walks)
    return probs


# ------------------------------------------------------------------------------------------------- raw sequences
def raw_sequence(seed, index, acc, count=True):
    import cloudsync
    from cloudsync import SyncState, Event
    from cloudsync.types import IgnoreReason, FILE, DIRECTORY
    from cloudsync.providers.mock import MockProvider
    rng = random.Random("%s:C11raw:%d" % (seed, index))
    flav = ("oo", "pp", "op", "po")[index % 4]
    provs = tuple(MockProvider(S.FLAVOUR[f][0], True) for f in flav)
    for p in provs:
        p.connect({"key": "val"})
    storage = S.MockStorage({})
    st = SyncState(provs, storage, tag="raw", shuffle=False)
    names = W.Names(rng)
    pool = [["a", "b", "c", "D", "D/a", "D/E", "D/E/b"], ["a", "b", "c", "D", "D/a", "D/E", "D/E/b"]]
    seen_events = [[], []]
    n_updates = 0
    kinds = []
    walks = 0
    problems = []
    nops = rng.randrange(25, 61)
    cnt = [0]

    def deliver(side, ev):
        nonlocal n_updates
        # the way EventManager._process_event feeds the state (event.py:280-314), minus the provider round trips
        if ev.oid is None:
            return
        path = ev.path
        if not path:
            ent = st.lookup_oid(side, ev.oid)
            if ent:
                path = ent[side].path
        with st.lock:
            st.update(side, ev.otype, ev.oid, path=path, hash=ev.hash, exists=ev.exists, prior_oid=ev.prior_oid)
            st.storage_commit()
        n_updates += 1

    def user_op(side):
        p = provs[side]
        path = "/" + rng.choice(pool[side])
        k = rng.choice(("create", "create", "write", "rename", "rename", "delete", "mkdir", "rendir"))
        cnt[0] += 1
        try:
            info = p.info_path(path)
            if k == "create":
                p.create(path, io.BytesIO(b"c%d" % cnt[0]))
            elif k == "mkdir":
                p.mkdir(path)
            elif info is None:
                return
            elif k == "write":
                if info.otype == FILE:
                    p.upload(info.oid, io.BytesIO(b"w%d" % cnt[0]))
            elif k == "delete":
                p.delete(info.oid)
            else:
                to = "/" + rng.choice(pool[side])
                if (to + "/").startswith(path + "/"):
                    return              # no provider can move a folder into itself
                p.rename(info.oid, to)
        except cloudsync.CloudException:
            pass

    for _ in range(nops):
        side = rng.randrange(2)
        k = rng.choice(("user", "user", "user", "event", "event", "event", "dup", "stale", "batch", "latest", "link", "finish",
                        "discard", "split", "commit", "merge", "clear"))
        kinds.append(k)
        try:
            if k == "user":
                user_op(side)
            elif k == "event":
                for ev in provs[side].events():
                    seen_events[side].append(ev)
                    deliver(side, ev)
                    break
            elif k == "dup":
                for ev in provs[side].events():
                    seen_events[side].append(ev)
                    deliver(side, ev)
                    deliver(side, ev)
                    break
            elif k == "stale" and seen_events[side]:
                deliver(side, rng.choice(seen_events[side]))
            elif k == "batch":
                batch = list(provs[side].events())
                seen_events[side].extend(batch)
                if not provs[side].oid_is_path:
                    rng.shuffle(batch)              # reordering only for id-stable providers (C14)
                for ev in batch:
                    deliver(side, ev)
            elif k == "latest":
                ents = list(st.get_all())
                if ents:
                    with st.lock:
                        rng.choice(ents).get_latest(force=rng.random() < 0.3)
            elif k == "link":
                # what the manager records after creating the peer object (manager.py _create_synced / mkdir_synced)
                ents = [e for e in st.get_all() if e[side].oid and e[side].path and not e[1 - side].oid
                        and e[side].exists.value == "exists"]
                if ents:
                    e = rng.choice(ents)
                    op = provs[1 - side]
                    tp = e[side].path
                    try:
                        if e[side].otype == DIRECTORY:
                            oid = op.mkdirs(tp)
                            h = None
                        else:
                            info = op.info_path(tp)
                            if info is None:
                                info = op.create(tp, io.BytesIO(b"L%d" % cnt[0]))
                            oid, h = info.oid, info.hash
                        with st.lock:
                            e[1 - side].sync_hash = h
                            e[1 - side].sync_path = tp
                            e[side].sync_hash = e[side].hash
                            e[side].sync_path = e[side].path
                            st.update_entry(e, 1 - side, oid, path=tp, file_hash=h, exists=True)
                    except cloudsync.CloudException:
                        pass
            elif k == "finish":
                ents = [e for e in st.changes]
                if ents:
                    e = rng.choice(ents)
                    with st.lock:
                        e[0].changed = 0
                        e[1].changed = 0
                        st.finished(e)
            elif k == "discard":
                ents = list(st.get_all())
                if ents:
                    with st.lock:
                        rng.choice(ents).ignore(IgnoreReason.DISCARDED)
            elif k == "split":
                ents = [e for e in st.get_all() if e[0].oid and e[1].oid]
                if ents:
                    with st.lock:
                        st.split(rng.choice(ents))
            elif k == "merge":
                # the merge primitive the manager uses (ent[side] = other[side]: manager.py resolver merge, merge of split
                # entries, handle_split_conflict): a half with an id is moved into an entry that has none on that side
                donors = [e for e in st.get_all() if e[side].oid and not e[1 - side].oid]
                takers = [e for e in st.get_all() if not e[side].oid]
                if donors and takers:
                    d = rng.choice(donors)
                    t = rng.choice([x for x in takers if x is not d] or [None])
                    if t is not None:
                        with st.lock:
                            t[side] = d[side]
                            if rng.random() < 0.5:
                                d.ignore(IgnoreReason.DISCARDED)
            elif k == "clear":
                # an entry's side forgotten and finished, as after a deletion has been synchronised
                ents = [e for e in st.get_all() if e[side].oid]
                if ents:
                    e = rng.choice(ents)
                    with st.lock:
                        e[side].clear()
            elif k == "commit":
                st.storage_commit()
        except RecursionError:
            problems.append(("recursion", k))
        except Exception as e:          # noqa  an exception out of a well-formed state operation
            problems.append(("exception:" + type(e).__name__, k, str(e)[:200]))
        walks += 1
        ps = O.index_problems(st)
        if ps:
            problems.append(("index_corrupt_after_" + k, ps[:3]))
        if problems:
            break
    if count:
        acc.evaluations += 1
        acc.count("raw_state_updates", n_updates)
        acc.count("index_walks_raw", walks)
        acc.add("raw_flavours", flav)
        for k in set(kinds):
            acc.count("raw_" + k, kinds.count(k))
        if n_updates >= 5:
            import hashlib
            acc.sigs.add("raw:" + hashlib.blake2b((flav + "|".join(kinds)).encode(), digest_size=8).hexdigest())
    return problems, {"flavour": flav, "ops": kinds[:40]}


def shard(ctx, acc):
    plan = META["plan"][ctx.tier]
    flavours = F.S.FLAVOURS_MAIN if ctx.tier == "quick" else F.S.FLAVOURS_ALL
    for i in F.indices(ctx, plan["cases"]):
        case = F.make_case(ctx.seed, PROP, i, flavours=flavours)
        probs = run(case, acc)
        if probs is None:
            continue
        acc.sample(W.brief_case(case), cap=2)
        if probs:
            acc.violation(probs[0][0], probs[:3], case)
    for i in F.indices(ctx, plan["raw"]):
        probs, brief = raw_sequence(ctx.seed, i, acc)
        if i < 2:
            acc.sample({"family": "RAW", **brief}, cap=4)
        if probs:
            acc.violation(probs[0][0], probs[:3], {"family": "RAW", "index": i, "seed": ctx.seed})


def conclusive(acc, tier):
    out = []
    if not acc.counters.get("index_walks_engine"):
        out.append("walker never ran on engine states")
    if not acc.counters.get("raw_state_updates"):
        out.append("raw sequences delivered no event")
    return out


coverage_extra = E.coverage_extra


def replay(rep):
    case = rep.get("case") or {}
    if case.get("family") == "RAW":
        probs, brief = raw_sequence(case["seed"], case["index"], Acc(), count=False)
        print("raw sequence", brief, "->", probs[:3])
        return 1 if probs else 0
    return E.replay_with(lambda c: run(c, count=False))(rep)
