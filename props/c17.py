"""C17 Scheduling laws: nothing syncs before it has aged; oldest eligible goes first."""
import random

from vlib import engine_check as E
from vlib import family as F
from vlib import oracles as O
from vlib import sim as S
from vlib import workload as W
from vlib.runner import Monitor
from vlib.shard import Acc

PROP = "C17"
META = {
    "level": "exploration",
    "claim": "Held on the executed runs (virtual clock; ageing 0 / 0.5 / 2 / 10 s; prioritise = constant, by extension incl. negative, random table): (S1) every selection the sync loop makes returns an entry that is eligible by the stated rule (a change flag at least the ageing interval old, or negative priority), never passes over an eligible entry with a strictly smaller (priority, last-change-time) key, returns nothing only when nothing is eligible, and with ageing 0 every pending entry is eligible at once; (S3) no engine write for a non-negative-priority entry happens earlier than the ageing interval after the engine was last notified of a change to that entry - except in the situation of finding K11, recognised by an input-side predicate at selection time; (S4) a deferred entry is selected again within a bounded number of steps and a permanently failing entry does not keep the others from being synchronised. (S5) no entry is propagated at once on the strength of a negative priority when the application's prioritise function gives the object's current path a non-negative one (decided where the changed side's events carry the path).",
    "note": "Trusted: the virtual clock (module-global time seam) advancing by each loop's own sleep; selections observed by wrapping SyncState.change, notifications by wrapping SyncState.update (class attributes, observation only). The clock ticks inside change(), so eligibility is judged with a tolerance of the ticks consumed by that call.",
    "technique": "runtime monitoring under a virtual clock: selection oracle at SyncState.change, notification-to-write latency ledger, bounded re-selection of deferred entries",
    "plan": {"quick": {"shards": 16, "timeout": 600, "cases": 4000},
             "thorough": {"shards": 32, "timeout": 3000, "cases": 150000}},
    "rule": "case = main-family case (ONE/DISJ/CONF) with virtual-time advances T(dt), dt in {0,0.1,0.5,1,3}, inserted "
            "between operations x ageing value x prioritise function; distinct = distinct (case signature, ageing, "
            "prioritise); non-trivial = >= 1 selection returned an entry and >= 1 engine write",
    "assumptions": ["time is what cloudsync.sync.state/manager/event/runnable see through their module-global 'time'"],
}

_CUR = [None]
_hooked = [False]


def hook():
    if _hooked[0]:
        return
    from cloudsync.sync.state import SyncState
    orig_change, orig_update = SyncState.change, SyncState.update

    def change(self, age):
        mon = _CUR[0]
        if mon is None or mon.sim is None or mon.sim.cs is None or self is not mon.sim.cs.state:
            return orig_change(self, age)
        t0 = mon.sim.clock.now
        ret = orig_change(self, age)
        mon.on_selection(self, age, ret, t0, mon.sim.clock.now)
        return ret

    def update(self, side, otype, oid, *a, **kw):
        r = orig_update(self, side, otype, oid, *a, **kw)
        mon = _CUR[0]
        if mon is not None and mon.sim is not None and mon.sim.cs is not None and self is mon.sim.cs.state:
            ent = self.lookup_oid(side, oid)
            if ent is not None:
                mon.keep.append(ent)            # strong reference: id() must not be reused within a case
                mon.notified[id(ent)] = mon.sim.clock.now
                mon.notified_side[(id(ent), side)] = mon.sim.clock.now
        return r
    SyncState.change = change
    SyncState.update = update
    _hooked[0] = True


class SchedMonitor(Monitor):
    def __init__(self):
        hook()
        self.sim = None
        self.problems = []
        self.selections = 0
        self.selected_nonnull = 0
        self.notified = {}
        self.notified_side = {}
        self.keep = []
        self.current = None             # (entry id, priority, other-side-aged flag, selection time)
        self.s3_hits_k11 = 0
        self.s3_hits_k22 = 0
        self.s3_checked = 0
        self.s5_checked = 0
        self.s5_opportunities = 0
        self.s5_hits_k29 = 0
        self.deferred = {}              # entry id -> step index when it was deferred
        self.max_reselect = 0
        self._ncalls = 0

    def on_sim(self, sim, case):
        self.sim = sim
        _CUR[0] = self

    def after_user(self, sim, rec):
        self.note_user(sim, rec)

    def note_user(self, sim, rec):
        # reach of S5: renames that take an object out of an 'immediately' class on a side whose events carry the path
        fn = sim.prioritize
        if fn is None or rec.get("op") not in ("rename", "rendir") or not rec.get("ok") or not rec.get("to"):
            return
        side = rec["side"]
        if sim.flavour[side] == "o":
            return
        if fn(side, sim.abspath(side, rec["path"])) < 0 <= fn(side, sim.abspath(side, rec["to"])):
            self.s5_opportunities += 1

    def on_selection(self, state, age, ret, t0, t1):
        self.selections += 1
        pend = list(state._changeset)                   # pylint: disable=protected-access
        lo, hi = t0 - age, t1 - age                     # 'earlier_than' lies in [lo, hi] (clock ticks inside change())

        def key(e):
            return (e.priority, max(e[0].changed or 0, e[1].changed or 0))

        def eligible(e, bound):
            return bool((e[0].changed and e[0].changed <= bound) or (e[1].changed and e[1].changed <= bound) or e.priority < 0)
        surely = [e for e in pend if eligible(e, lo)]
        maybe = [e for e in pend if eligible(e, hi)]
        if ret is None:
            if surely and len(self.problems) < 4:
                self.problems.append(("S1_nothing_selected_although_an_entry_is_eligible", age, len(surely),
                                      [(e[0].path, e[1].path, e.priority) for e in surely[:2]]))
            self.current = None
            return
        self.selected_nonnull += 1
        if ret not in maybe and len(self.problems) < 4:
            self.problems.append(("S1_selected_entry_is_not_eligible", age, ret.priority, ret[0].changed, ret[1].changed, t1))
        better = [e for e in surely if e is not ret and key(e) < key(ret)]
        if better and len(self.problems) < 4:
            self.problems.append(("S1_passed_over_an_eligible_entry_with_smaller_key", key(ret), key(better[0]), age))
        if age == 0 and len(pend) != len(maybe) and len(self.problems) < 4:
            late = [e for e in pend if e not in maybe]
            # change stamps are forced to increase by 1 ms steps and may run ahead of a slow clock: not eligible "at once"
            # only if the stamp is in the future of the clock, which the statement does not cover
            if any(max(e[0].changed or 0, e[1].changed or 0) <= lo for e in late):
                self.problems.append(("S1_ageing_zero_but_pending_entry_not_eligible", len(late)))
        # input-side predicate of finding K11: which sides carry an aged flag at selection time
        aged = [bool(ret[s].changed and ret[s].changed <= hi) for s in (0, 1)]
        forced = any(ret[s].changed == 1 for s in (0, 1))       # SideState.set_aged(): the parent-first rule's marker
        # S5 material: what the application's prioritise function says about the entry's *current* paths
        fn = self.sim.prioritize if self.sim is not None else None
        app = None
        if fn is not None:
            vals = [fn(s, ret[s].path) for s in (0, 1) if ret[s].path]
            app = min(vals) if vals else None
        fresh = [s for s in (0, 1) if ret[s].changed and ret[s].changed > hi]
        self.current = (id(ret), ret.priority, aged, t1, age, forced, app, fresh)
        if id(ret) in self.deferred:
            d = self.sim.steps - self.deferred.pop(id(ret))
            self.max_reselect = max(self.max_reselect, d)

    def after_step(self, sim, name):
        calls = sim.world.calls[self._ncalls:]
        self._ncalls = len(sim.world.calls)
        if name != "S" or self.current is None:
            return
        eid, prio, aged, tsel, age, forced, app, fresh = self.current
        self.current = None
        writes = [c for c in calls if c["op"] in S.WRITES and c.get("ok") and c.get("ev")]
        if writes and age > 0 and prio < 0 and app is not None and app >= 0 and not any(aged):
            # S5: propagated at once on the strength of a negative priority the application no longer gives to the object's
            # path (it was renamed out of an 'immediate' class).  Decided only where the changed side's events carry the
            # path (path-id or filtered flavours): with path-less events the engine learns the new path inside the sync step
            # itself, and the harness reads the same stale path at selection time, so the clause is not observable there
            self.s5_checked += 1
            fl = self.sim.flavour if self.sim is not None else ""
            if any(fl[s] == "o" for s in fresh) or not fresh:
                self.s5_hits_k29 += 1           # counted as 'not decidable here', never a verdict
            elif len(self.problems) < 4:
                self.problems.append(("S5_propagated_at_once_but_the_applications_priority_for_its_current_path_is_not_negative",
                                      prio, app, [O.brief_call(c) for c in writes[:2]]))
        if writes and prio >= 0 and age > 0:
            self.s3_checked += 1
            last = self.notified.get(eid)
            if last is not None and tsel - last < age - 1e-9:
                # a change notified less than `age` ago is being propagated.  K11: the entry was eligible because the
                # OTHER side carried an aged flag (input-side predicate); anything else contradicts S1 and is reported
                fresh_side = [s for s in (0, 1) if self.notified_side.get((eid, s)) == last]
                k11 = any(aged[1 - s] for s in fresh_side) if fresh_side else any(aged)
                if forced:
                    self.s3_hits_k22 += 1
                elif k11:
                    self.s3_hits_k11 += 1
                elif len(self.problems) < 4:
                    self.problems.append(("S3_change_propagated_before_it_aged", round(tsel - last, 4), age,
                                          [O.brief_call(c) for c in writes[:2]]))
        # deferral bookkeeping: the entry is still pending with a raised priority
        for e in sim.state.changes:
            if id(e) == eid and e.priority > prio:
                self.deferred.setdefault(eid, sim.steps)


def prioritizer(kind, rng):
    if kind == "const":
        return None
    if kind == "ext":
        def f(side, path):
            if path.endswith(".txt"):
                return -1
            if path.endswith(".dat"):
                return 2
            return 0
        return f
    table = {}

    def g(side, path):
        k = path.rsplit("/", 1)[-1]
        if k not in table:
            table[k] = rng.choice((-2, -1, 0, 0, 0, 1, 3))
        return table[k]
    return g


def make(seed, i, flavours):
    case = F.make_case(seed, PROP, i, flavours=flavours, nops=(4, 10))
    rng = random.Random("%s:C17t:%d" % (seed, i))
    sched = []
    for e in case["sched"]:
        sched.append(e)
        if e[0] == "U" and rng.random() < 0.6:
            sched.append(["T", rng.choice((0, 0.1, 0.5, 1, 3))])
    case["sched"] = sched
    case["aging"] = (0, 0.5, 2, 10)[(i // 3) % 4]
    case["prio"] = ("const", "ext", "table")[i % 3]
    return case


def evaluate(case, obs, sim, monitors):
    mon = monitors[0]
    probs = list(obs.problems)
    if obs.unhandled:
        probs.append(("exception_escaped_step", obs.unhandled[:2]))
    probs.extend(mon.problems[:3])
    if mon.max_reselect > 600:
        probs.append(("S4_deferred_entry_not_selected_again_within_600_steps", mon.max_reselect))
    if obs.trees is not None:
        L, R = obs.trees
        if case.get("expect") is not None:
            probs.extend(O.exact_problems(L, case["expect"], "local_tree"))
            probs.extend(O.exact_problems(R, case["expect"], "remote_tree"))
        else:
            probs.extend(O.converged_problems(L, R))
    return probs


def run(case, acc=None, count=True):
    acc = acc or Acc()
    mons = []
    prng = random.Random("%s:prio" % case.get("sim_seed", 0))

    def fac():
        mons[:] = [SchedMonitor()]
        return mons
    try:
        probs = E.run_one(case, acc, evaluate, monitors_factory=fac,
                          sim_kwargs={"aging": case.get("aging", 0), "prioritize": prioritizer(case.get("prio", "const"), prng)},
                          count=count, qcap=6000)
    finally:
        _CUR[0] = None
    if count and mons:
        m = mons[0]
        acc.count("selections", m.selections)
        acc.count("selections_returning_an_entry", m.selected_nonnull)
        acc.count("s3_writes_checked", m.s3_checked)
        acc.count("s3_hits_attributed_K11", m.s3_hits_k11)
        acc.maxi("max_steps_until_deferred_entry_reselected", m.max_reselect)
        acc.add("ageing_values", str(case.get("aging")))
        acc.add("prioritise", case.get("prio"))
        acc.count("s3_hits_attributed_K22", m.s3_hits_k22)
        acc.count("s5_immediate_writes_with_non_negative_application_priority", m.s5_checked)
        acc.count("s5_not_decidable_path_less_events", m.s5_hits_k29)
        acc.count("s5_renames_out_of_an_immediate_class_on_path_carrying_sides", m.s5_opportunities)
        if m.s3_hits_k11:
            acc.known_hit("K11", dict(W.brief_case(case), ageing=case.get("aging")))
        if m.s3_hits_k22:
            acc.known_hit("K22", dict(W.brief_case(case), ageing=case.get("aging")))
    return probs


def shard(ctx, acc):
    plan = META["plan"][ctx.tier]
    flavours = F.S.FLAVOURS_MAIN if ctx.tier == "quick" else F.S.FLAVOURS_ALL
    for i in F.indices(ctx, plan["cases"]):
        case = make(ctx.seed, i, flavours)
        hz, _ = F.classify(case)
        if hz:
            acc.inconclusive.append("generator bug: main-family case %d has hazard %s" % (i, sorted(hz)))
            continue
        probs = run(case, acc)
        if probs is None:
            continue
        acc.sample(dict(W.brief_case(case), ageing=case["aging"], prioritise=case["prio"]), cap=3)
        if probs:
            acc.violation(probs[0][0], probs[:4], case)


def conclusive(acc, tier):
    out = []
    if not acc.counters.get("selections_returning_an_entry"):
        out.append("no selection was observed")
    if not acc.counters.get("s3_writes_checked"):
        out.append("no engine write under positive ageing was checked")
    return out


coverage_extra = E.coverage_extra
replay = E.replay_with(lambda c: run(c, count=False))
