"""C03 One-sided changes mirror exactly; origin side untouched; no echo."""
from vlib import engine_check as E
from vlib import family as F
from vlib import oracles as O
from vlib import probes as P
from vlib import workload as W
from vlib.shard import Acc

PROP = "C03"
META = {
    "level": "exploration",
    "claim": "Held on the executed runs: for one-sided histories in both directions from previously synchronised trees, the quiescent trees of both sides equal the dict model of the user's operations exactly, no '.conflicted' name exists, the engine issued no effective (event-producing) mutating call on the origin side after the base tree, and 3 further full rounds after quiescence issue no provider write.",
    "note": "Trusted: engine-issued calls are recognised by the step-context flag of the taps; 'effective' = the provider registered an event for the call. Path-id rename/delete chains within a window are hazard HC (K15), un-isolated folder renames HD (K1), name re-use HF (K2): generated only in the thorough hazard-seeking part.",
    "technique": 'runtime monitoring: exact-mirror tree oracle + call ledger (origin side untouched, no echo) over generated one-sided histories',
    "plan": {"quick": {"shards": 16, "timeout": 600, "cases": 12000, "nest1": 5000},
             "thorough": {"shards": 32, "timeout": 3000, "cases": 300000, "seek": 40000, "nest1": 100000}},
    "rule": "[+ NEST1: one user renames/moves folders and works inside them, id-stable acting side, object-graph expectation, failures with two folder renames above a changed file attributed to K1] case = one-sided history (family ONE0 local->remote / ONE1 remote->local, REUSE0/1 taking vacated names again) from a previously synchronised base "
            "tree built on either side, flavour x schedule shape round-robin, 4-12 ops incl. isolated folder renames; "
            "distinct = distinct case signature; non-trivial = >= 1 engine write after the base tree. thorough adds "
            "hazard-seeking one-sided histories (name re-use, un-isolated folder renames) attributed to K1/K2/K13 or reported",
    "assumptions": ["expected mirror = dict model of the user's ops (independent of the engine)",
                    "engine-issued calls are told apart from user calls by the step context flag of the taps",
                    "echo check = 3 more full rounds after quiescence"],
}


def evaluate(case, obs, sim, monitors):
    probs = list(obs.problems)
    if obs.unhandled:
        probs.append(("exception_escaped_step", obs.unhandled[:2]))
    if obs.trees is None:
        return probs
    side = int(case["family"][-1])
    L, R = obs.trees
    expect = case.get("expect")
    if expect is None:
        expect = obs.trees[side]
    probs.extend(O.exact_problems(obs.trees[side], expect, "origin_tree"))
    probs.extend(O.exact_problems(obs.trees[1 - side], expect, "mirror_tree"))
    cp = O.conflicted_paths(L, R)
    if cp:
        probs.append(("conflicted_artefact", cp[:3]))
    since = getattr(sim.world, "calls_base", 0)
    # "no effective change": a call that registered no provider event (mkdir of an existing folder) changed nothing
    ow = [c for c in O.engine_writes(sim, side=side, since=since) if c.get("ok") and c.get("ev")]
    if ow:
        probs.append(("engine_write_on_origin_side", [O.brief_call(c) for c in ow[:3]]))
    if obs.extra_round_writes:
        probs.append(("echo_write_after_quiescence", [O.brief_call(c) for c in obs.extra_round_writes[:3]]))
    acc_ineffective = [c for c in O.engine_writes(sim, side=side, since=since) if c.get("ok") and not c.get("ev")]
    obs.ineffective_origin_calls = len(acc_ineffective)
    return probs


def run(case, acc=None, count=True):
    return E.run_one(case, acc or Acc(), evaluate, extra_rounds=3, count=count)


def shard(ctx, acc):
    plan = META["plan"][ctx.tier]
    flavours = F.S.FLAVOURS_MAIN if ctx.tier == "quick" else F.S.FLAVOURS_ALL
    for i in F.indices(ctx, plan["cases"]):
        case = F.make_case(ctx.seed, PROP, i, families=("ONE0", "ONE1", "REUSE0", "REUSE1"), flavours=flavours)
        hz, _ = F.classify(case)
        if hz:
            acc.inconclusive.append("generator bug: main-family case %d has hazard %s" % (i, sorted(hz)))
            continue
        probs = run(case, acc)
        if probs is None:
            continue
        acc.sample(W.brief_case(case))
        if probs:
            acc.violation(probs[0][0], probs[:4], case)
    for i in F.indices(ctx, plan.get("seek", 0)):
        case = F.make_case(ctx.seed, PROP + "seek", i, families=("SONE0", "SONE1"), flavours=("oo", "po", "pp", "op"),
                           nops=(4, 9))
        hz, ks = F.classify(case)
        probs = run(case, acc)
        if probs is None:
            continue
        acc.count("seek_cases")
        if hz:
            acc.count("seek_cases_with_hazard")
        if probs:
            if ks:
                acc.count("seek_failures_attributed")
                acc.known_hit(ks[0], W.brief_case(case))
            else:
                acc.violation("seek:" + probs[0][0], probs[:4], case)
    # 'd' flavours: a provider that reports folder deletions without an id (MockProvider(oidless_folder_trash_events=True),
    # as Dropbox does) on either side, with the one-sided families incl. name reuse (REUSE) and remove-and-make-again (REMK)
    for i in F.indices(ctx, plan["cases"] // 6):
        case = F.make_case(ctx.seed, PROP + "dflav", i, families=("ONE0", "ONE1", "REUSE0", "REUSE1", "REMK0", "REMK1"),
                           flavours=("do", "od", "dd", "dp", "pd"))
        if F.classify(case)[0] and not case["family"].startswith("REMK"):
            acc.inconclusive.append("generator bug: main-family case %d has a hazard" % i)
            continue
        probs = run(case, acc)
        if probs is None:
            continue
        acc.count("idless_folder_delete_flavour_cases")
        if probs:
            if case["family"].startswith("REMK") and case["flavour"][int(case["family"][-1])] == "d":
                # finding K32 (input predicate): the acting side reports folder deletions without an id and the user removes
                # and re-makes a folder of the same name inside one window - the engine has to guess which generation an
                # id-less delete event means (about 1 REMK case in 4 000 fails on the pinned tree, all with 3+ generations)
                acc.count("failures_attributed_K32")
                acc.known_hit("K32", W.brief_case(case))
            else:
                acc.violation("dflav:" + probs[0][0], probs[:4], case)
    # DEEPMK (one-sided): a folder made two or more levels below a folder that the same user renames in the same window, path-id
    # acting side, no sync step in between (see C04 / DESIGN 8.3 for the measurement)
    for i in F.indices(ctx, plan["cases"] // 8):
        case = F.make_case(ctx.seed, PROP + "deepmk", i, families=("DEEPMK",), flavours=("po", "pp", "op"),
                           shapes=("burst", "intake"), nops=(1, 2))
        actor = [e[1]["side"] for e in case["sched"] if e[0] == "U" and e[1]["op"] == "rendir"][0]
        if any(e[0] == "U" and e[1]["side"] != actor for e in case["sched"]):
            continue
        case["family"] = "ONE%d" % actor
        probs = run(case, acc)
        if probs is None:
            continue
        acc.count("deepmk_one_sided_cases")
        if probs:
            acc.violation("deepmk:" + probs[0][0], probs[:4], case)
    # NEST1: one user renames / moves folders *and* works inside them (object graph expectation), acting side id-stable.
    # Measured on the pinned tree (12 000 cases): no failure when the acting side has stable ids and no file has two
    # folder renames above it (nest.hd2); with hd2, or with a path-id acting side (10-28 % fail), it is K1 territory.
    from vlib import nest as N
    for i in F.indices(ctx, plan.get("nest1", 0)):
        case = N.make_case(ctx.seed, i, ("oo", "of", "fo", "op", "po"), one_sided=True)
        if case["flavour"][case["actor"]] == "p":
            acc.count("nest1_skipped_path_id_actor")
            continue
        probs, st = N.run_case(case)
        acc.evaluations += 1
        acc.count("nest1_cases")
        acc.count("engine_steps", st["steps"])
        acc.count("engine_writes", st["writes"])
        acc.count("user_ops", st["user_ops"])
        hp = [q for q in probs if str(q[0]).startswith("harness")]
        if hp:
            acc.inconclusive.append(str(hp[0])[:200])
            continue
        if st["writes"]:
            acc.sigs.add("nest1:%d" % i)
        if probs:
            if N.hd2(case):
                acc.count("nest1_failures_attributed_K1")
                acc.known_hit("K1", N.brief(case))
            else:
                acc.violation("nest1:" + probs[0][0], probs[:4], case)
    if ctx.shard == 0:
        P.run_probes(PROP, acc, lambda c: run(c, count=False))


def conclusive(acc, tier):
    return ["no engine write was observed"] if acc.counters.get("engine_writes", 0) == 0 else []


coverage_extra = E.coverage_extra
def _replay_one(c):
    if c.get("family") == "NEST1":
        from vlib import nest as N
        return N.run_case(c)[0]
    return run(c, count=False)


replay = E.replay_with(_replay_one)
