"""Witness for F16: an event that places a folder below its own previous path (only a stale, re-delivered event can say
that: '/b' -> '/b/k') made SyncState._update_kids treat the folder as its own child and recurse until RecursionError.
usage: python F16_demo.py <repo>   -> exit 1 if the second event raises"""
import sys
sys.path.insert(0, sys.argv[1] if len(sys.argv) > 1 else "/repo")
from cloudsync.tests.fixtures import MockProvider
from cloudsync.sync.state import SyncState
from cloudsync.types import DIRECTORY

state = SyncState((MockProvider(oid_is_path=False, case_sensitive=True), MockProvider(oid_is_path=False, case_sensitive=True)),
                  shuffle=False)
state.update(0, DIRECTORY, "Y", path="/b")
try:
    state.update(0, DIRECTORY, "Y", path="/b/k")
except RecursionError as e:
    print("second event raised RecursionError")
    sys.exit(1)
print("path now", state.lookup_oid(0, "Y")[0].path)
