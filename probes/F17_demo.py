"""Witness for F17: MockProvider.events() is decorated with the provider lock, but it is a generator - the lock is held
only while the generator object is created.  The body advances the shared cursor and then reads the event *at the
shared cursor*; EventManager.busy (a public property applications poll from their own threads) and the event loop both
iterate events(), so a second consumer moving the cursor between the two statements makes the first one skip an event
for good.  The first consumer is parked between the two statements here (any preemption there has the same effect).
usage: python F17_demo.py <repo>   -> exit 1 if an event is delivered to neither consumer"""
import io, sys, threading
repo = sys.argv[1] if len(sys.argv) > 1 else "/repo"
sys.path.insert(0, repo)
import cloudsync.providers.mock as MK

src = open(MK.__file__).read().split("\n")
start = next(i for i, l in enumerate(src) if l.strip().startswith("def events("))
read_line = next(i for i in range(start, start + 25) if "self._events[" in src[i]) + 1
parked, release, armed = threading.Event(), threading.Event(), [True]
mon = sys.monitoring
mon.use_tool_id(3, "demo")


def cb(code, line):
    if code.co_filename != MK.__file__:
        return mon.DISABLE
    if line == read_line and armed[0] and threading.current_thread().name == "consumer-A":
        armed[0] = False
        parked.set()
        release.wait(5)


mon.register_callback(3, mon.events.LINE, cb)
mon.set_events(3, mon.events.LINE)

p = MK.MockProvider(False, True)
p.connect({"key": "val"})
p.mkdir("/r")
for _ in p.events():
    pass
names = ["/r/a", "/r/b", "/r/c"]
for n in names:
    p.create(n, io.BytesIO(b"x"))
got_a, got_b = [], []


def consumer_a():
    for e in p.events():
        got_a.append(e.oid)


t = threading.Thread(target=consumer_a, name="consumer-A")
t.start()
parked.wait(5)
for e in p.events():            # what EventManager.busy does: take one event, abandon the generator
    got_b.append(e.oid)
    break
release.set()
t.join()
mon.set_events(3, 0)
want = [p.info_path(n).oid for n in names]
missing = [n for n, o in zip(names, want) if o not in got_a + got_b]
print("delivered to A: %d, to B: %d, never delivered: %s" % (len(got_a), len(got_b), missing))
sys.exit(1 if missing else 0)
