"""Witness for F14: Runnable.wake() tested self.__interrupt for None and then dereferenced the attribute again; the loop
thread clears it when it ends, so a wake()/stop() from another thread that is preempted between test and use raised
AttributeError (and stop_all() then never signalled the remaining services).  The preemption is produced here by a
sys.monitoring LINE callback that parks the waking thread on the line after the None test until the loop thread has gone.
usage: python F14_demo.py <repo>   -> exit 1 if stop() raised"""
import sys, threading, time
repo = sys.argv[1] if len(sys.argv) > 1 else "/repo"
sys.path.insert(0, repo)
import cloudsync.runnable as RM

gone = threading.Event()
src = open(RM.__file__).read().split("\n")
wake_def = next(i for i, l in enumerate(src) if l.strip().startswith("def wake("))
# the statement that uses the interrupt event inside wake(): last '.set()' line of that function
use_line = next(i for i in range(wake_def, wake_def + 15) if src[i].strip().endswith(".set()")) + 1
mon = sys.monitoring
mon.use_tool_id(3, "demo")


def cb(code, line):
    if code.co_filename != RM.__file__:
        return mon.DISABLE
    if line == use_line and threading.current_thread().name == "MainThread":
        gone.wait(2)


mon.register_callback(3, mon.events.LINE, cb)
mon.set_events(3, mon.events.LINE)


class Svc(RM.Runnable):
    def do(self):
        pass

    def run(self, **kw):
        try:
            RM.Runnable.run(self, **kw)
        finally:
            gone.set()


s = Svc()
s.start(sleep=0.0005, timeout=0.05)     # the loop ends on its own after 50 ms
time.sleep(0.01)
try:
    s.stop(forever=True, wait=True)
    print("stop returned")
    rc = 0
except AttributeError as e:
    print("stop raised", repr(e))
    rc = 1
mon.set_events(3, 0)
sys.exit(rc)
