"""Witness for F18: CloudSync.walk() (public, called by applications while the engine runs) appends walk events to
EventManager._queue; the event loop drained that list with 'for ... in self._queue' followed by 'self._queue = []'.
An append landing between the end of the loop and the reassignment was dropped.  The event thread is parked on the
reassignment line here (any preemption at that boundary has the same effect) while the application queues an event.
usage: python F18_demo.py <repo>   -> exit 1 if the queued walk event is never processed"""
import io, sys, threading
repo = sys.argv[1] if len(sys.argv) > 1 else "/repo"
sys.path.insert(0, repo)
import cloudsync
import cloudsync.event as EV
from cloudsync.tests.fixtures import MockProvider, MockStorage

src = open(EV.__file__).read().split("\n")
start = next(i for i, l in enumerate(src) if l.strip().startswith("def _do_unsafe("))
# the statement that follows the drain loop inside _do_unsafe ('self._queue = []' before the fix; none after it)
end = next(i for i in range(start + 1, len(src)) if src[i].startswith("    def "))
reset_line = next((i + 1 for i in range(start, end) if src[i].strip() == "self._queue = []"), None)
parked, release, armed = threading.Event(), threading.Event(), [False]
mon = sys.monitoring
mon.use_tool_id(3, "demo")


def cb(code, line):
    if code.co_filename != EV.__file__:
        return mon.DISABLE
    if reset_line and line == reset_line and armed[0] and threading.current_thread().name == "event-thread":
        armed[0] = False
        parked.set()
        release.wait(5)


mon.register_callback(3, mon.events.LINE, cb)
mon.set_events(3, mon.events.LINE)

local, remote = MockProvider(False, True), MockProvider(False, True)
for p in (local, remote):
    p.connect({"key": "val"})
local.mkdir("/local")
remote.mkdir("/remote")
cs = cloudsync.CloudSync((local, remote), ("/local", "/remote"), storage=MockStorage({}), sleep=None)
cs.aging = 0
cs.smgr.run(until=lambda: True, sleep=0)
for m in cs.emgrs:
    m.run(until=lambda: True, sleep=0)      # start-up walk and cursor initialisation are done
local.create("/local/a.txt", io.BytesIO(b"a"))
local.create("/local/b.txt", io.BytesIO(b"b"))
for _ in local.events():                     # their events are consumed here: only a walk can reveal a and b now
    pass
em = cs.emgrs[0]
walk = list(local.walk("/local"))
ev_a = next(e for e in walk if e.path == "/local/a.txt")
ev_b = next(e for e in walk if e.path == "/local/b.txt")
em.queue(ev_a, from_walk=True)
armed[0] = True
t = threading.Thread(target=lambda: em.run(until=lambda: True, sleep=0), name="event-thread")
t.start()
print("parked:", parked.wait(3), "reset_line", reset_line)
em.queue(ev_b, from_walk=True)               # what CloudSync.walk() does from the application's thread
release.set()
t.join()
mon.set_events(3, 0)
for _ in range(100):
    for m in (cs.emgrs[0], cs.emgrs[1], cs.smgr):
        m.run(until=lambda: True, sleep=0)
got = [remote.info_path("/remote/a.txt") is not None, remote.info_path("/remote/b.txt") is not None]
print("a.txt synchronised: %s, b.txt synchronised: %s" % tuple(got))
sys.exit(0 if all(got) else 1)
