"""Witness for F13: Runnable.stop(forever=True) raised the loop's stopping flag *before* recording that the stop is
final; a loop thread that leaves in that window skips done().  The window is widened here by a wake() that waits for
the service thread to be gone (any preemption between the two assignments has the same effect).
usage: python F13_demo.py <repo>   -> prints 'done calls: N' and exits 1 if N != 1"""
import sys, threading, time
sys.path.insert(0, sys.argv[1] if len(sys.argv) > 1 else "/repo")
from cloudsync.runnable import Runnable

calls = []
gone = threading.Event()


class Svc(Runnable):
    def do(self):
        pass

    def done(self):
        calls.append("done")

    def run(self, **kw):
        try:
            Runnable.run(self, **kw)
        finally:
            gone.set()

    def wake(self):
        Runnable.wake(self)
        if threading.current_thread().name == "MainThread":
            gone.wait(2)        # the stopping thread is descheduled here until the loop thread has finished


s = Svc()
s.start(sleep=0.0005)
time.sleep(0.01)
s.stop(forever=True, wait=True)
print("done calls:", len(calls))
sys.exit(0 if len(calls) == 1 else 1)
