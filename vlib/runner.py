"""Executes one case (workload.py) on a Sim and returns what was observed."""
from . import sim as S
from . import load as _load


class Monitor:
    """Override what you need.  Monitors record; verdicts are taken by the property module."""

    def on_sim(self, sim, case):            # after construction, before the base tree
        pass

    def after_base(self, sim, case):        # base tree synchronised (quiescent)
        pass

    def before_user(self, sim, op):
        pass

    def after_user(self, sim, rec):
        pass

    def before_step(self, sim, name):
        pass

    def after_step(self, sim, name):
        pass

    def at_quiescence(self, sim, final):
        pass

    def before_restart(self, sim, mode):    # engine about to be abandoned (planned stop at a step boundary)
        pass

    def after_restart(self, sim, mode):
        pass

    def at_crash(self, sim):                # the crash instant: storage and providers are frozen as they are
        pass


class Obs:
    """Observations of one run."""

    def __init__(self):
        self.problems = []          # (kind, detail) raised by the runner itself (not quiescent, unhandled exception...)
        self.trees = None           # (L, R) at the final quiescence
        self.steps_final = None     # steps used by the final quiescence
        self.steps_total = 0
        self.user = []              # annotated user ops
        self.unhandled = []
        self.base_trees = None
        self.quiesce_steps = []
        self.harness_error = None
        self.crashes = []


def run_case(case, monitors=(), sim_kwargs=None, qcap=S.QCAP, final_quiesce=True, keep_sim=False, pre=None,
             on_crash=None):
    obs = Obs()
    kw = dict(sim_kwargs or {})
    sim = S.Sim(case["flavour"], **kw)
    obs.sim = sim if keep_sim else None
    n_unh0 = len(_load.unhandled)

    def step(name):
        for m in monitors:
            m.before_step(sim, name)
        sim.step(name)
        for m in monitors:
            m.after_step(sim, name)

    def quiesce(final=False):
        used = sim.quiesce(cap=qcap, on_step=_on_step)
        obs.quiesce_steps.append(used)
        for m in monitors:
            m.at_quiescence(sim, final)
        return used

    def _on_step(name):
        for m in monitors:
            m.after_step(sim, name)

    try:
        for m in monitors:
            m.on_sim(sim, case)
        if pre is not None:
            pre(sim)
        # base tree: applied on one side, then synchronised
        if case.get("base"):
            for op in case["base"]:
                rec = sim.user(op)
                if not rec.get("ok"):
                    obs.problems.append(("base_op_rejected", rec))
            try:
                sim.quiesce(cap=qcap)
            except S.NotQuiescent as e:
                obs.problems.append(("base_not_quiescent", str(e)))
            obs.base_trees = (sim.tree(0), sim.tree(1))
        for m in monitors:
            m.after_base(sim, case)
        sim.world.calls_base = len(sim.world.calls)
        for e in case["sched"]:
            k = e[0]
            if k == "U":
                for m in monitors:
                    m.before_user(sim, e[1])
                rec = sim.user(e[1])
                obs.user.append(rec)
                for m in monitors:
                    m.after_user(sim, rec)
            elif k in ("E0", "E1", "S"):
                step(k)
            elif k == "Q":
                try:
                    quiesce()
                    if sim.world.dead and on_crash == "restart":
                        obs.crashes.append(sim.world.crash_site)
                        for m in monitors:
                            m.at_crash(sim)
                        sim.restart("intact")
                        for m in monitors:
                            m.after_restart(sim, "crash")
                        quiesce()
                except S.NotQuiescent as ex_:
                    obs.problems.append(("not_quiescent", str(ex_)))
                    break
            elif k == "N":
                sim.drain_notifications()
            elif k == "R":
                for m in monitors:
                    m.before_restart(sim, e[1])
                sim.restart(e[1])
                for m in monitors:
                    m.after_restart(sim, e[1])
            elif k == "T":
                if sim.clock is not None:
                    sim.clock.advance(e[1])
            elif k == "B":
                # the application polls CloudSync.busy (a public property that itself takes an event from each provider)
                w = sim.world
                prev = w.ctx
                w.ctx = "engine"
                try:
                    sim.cs.busy                                         # pylint: disable=pointless-statement
                except Exception:                                       # noqa
                    obs.problems.append(("busy_raised", S.fmt_exc()[-300:]))
                finally:
                    w.ctx = prev
            else:
                raise ValueError(k)
            if sim.world.dead:
                if on_crash == "restart":
                    # the process died: a new engine starts over whatever storage and providers hold; users carry on
                    obs.crashes.append(sim.world.crash_site)
                    for m in monitors:
                        m.at_crash(sim)
                    sim.restart("intact")
                    for m in monitors:
                        m.after_restart(sim, "crash")
                else:
                    break
        if final_quiesce and not sim.world.dead and not any(p[0] == "not_quiescent" for p in obs.problems):
            try:
                obs.steps_final = quiesce(final=True)
                if sim.world.dead and on_crash == "restart":
                    obs.crashes.append(sim.world.crash_site)
                    for m in monitors:
                        m.at_crash(sim)
                    sim.restart("intact")
                    for m in monitors:
                        m.after_restart(sim, "crash")
                    obs.steps_final = quiesce(final=True)
            except S.NotQuiescent as ex_:
                obs.problems.append(("not_quiescent", str(ex_)))
            obs.trees = (sim.tree(0), sim.tree(1))
        obs.steps_total = sim.steps
        obs.unhandled = [u for u in _load.unhandled[n_unh0:] if u[1] != "Crash"]
        del _load.unhandled[n_unh0:]
    except S.Crash:
        raise
    except Exception:               # harness or engine-construction error: never a verdict
        obs.harness_error = S.fmt_exc()
    finally:
        if not keep_sim:
            sim.close()
    return obs, sim
