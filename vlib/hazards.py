"""Window hazard predicates over *inputs only* (paths, kinds, sides of the user operations of one window).

A window = the user operations between two consecutive quiescent points.  HD / HF delimit the part of the input
space in which the pinned engine's rename handling is known to be weak (DESIGN.md 1.6, 2.4, findings K1-K3).
"""


def windows(sched):
    """Split a schedule into windows of user ops at 'Q' (and restart) boundaries."""
    out, cur = [], []
    for e in sched:
        if e[0] == "U":
            cur.append(e[1])
        elif e[0] == "Q":
            if cur:
                out.append(cur)
            cur = []
    if cur:
        out.append(cur)
    return out


def _related(a, b):
    """a equal to, above or below b (root-relative paths)."""
    return a == b or a.startswith(b + "/") or b.startswith(a + "/")


def _paths(op):
    return [op["path"]] + ([op["to"]] if "to" in op else [])


def hd(window):
    """Folder rename + any other op in the window one of whose paths is related to its source or target."""
    for i, op in enumerate(window):
        if op["op"] != "rendir":
            continue
        for j, other in enumerate(window):
            if i == j:
                continue
            for q in _paths(other):
                if _related(q, op["path"]) or _related(q, op["to"]):
                    return True
    return False


def hf(window):
    """File rename p->q on side s + another op (either side) touching path p or q, other than a same-side op on that
    very object."""
    for i, op in enumerate(window):
        if op["op"] != "rename":
            continue
        p, q = op["path"], op["to"]
        for j, other in enumerate(window):
            if i == j:
                continue
            if not any(x in (p, q) for x in _paths(other)):
                # an op on an ancestor/descendant *folder* path is not HF (covered by HD when it is a folder rename)
                continue
            same_obj = other["side"] == op["side"] and other.get("obj") is not None and other.get("obj") == op.get("obj") \
                and op.get("obj") not in (None, 0)
            if same_obj:
                continue
            return True
    return False


_FILE_OPS = ("create", "write", "delete", "rename")
_DIR_OPS = ("mkdir", "rmdir", "rendir")


def _typed_paths(window, side):
    files, dirs = set(), set()
    for op in window:
        if op["side"] != side:
            continue
        if op["op"] in _FILE_OPS:
            files.update(_paths(op))
        elif op["op"] in _DIR_OPS:
            dirs.update(_paths(op))
    return files, dirs


def ht(window):
    """Same-side type change: one path is used as a file and as a folder by the same side's user in one window."""
    for side in (0, 1):
        f, d = _typed_paths(window, side)
        if f & d:
            return True
    return False


def hx(window):
    """Cross-side file-vs-folder name clash: a path is a file for one side's user and a folder for the other's."""
    f0, d0 = _typed_paths(window, 0)
    f1, d1 = _typed_paths(window, 1)
    return bool((f0 & d1) or (f1 & d0))


def hc(window, flavour):
    """Path-id side: an object that already has an operation (create, mkdir, write, rename) in this window is renamed or
    deleted -- its path id vanishes while a change is pending, and the sync step can meet the vanished id before the
    rename/delete event is consumed."""
    seen = set()
    for op in window:
        if flavour[op["side"]] != "p" or op.get("obj") in (None, 0):
            continue
        key = (op["side"], op.get("obj"))
        if op["op"] in ("rename", "delete", "rmdir") and key in seen:
            return True
        if op["op"] in ("create", "mkdir", "write", "rename"):
            seen.add(key)
    return False


def hq(window):
    """Short-lived object at a contested path: one side's user creates a file at P and deletes it again within the
    window while the other side's user also operates on P (the new object gets linked to the other side's object and
    its deletion is then propagated to it)."""
    for side in (0, 1):
        created = set()
        for op in window:
            if op["side"] != side:
                continue
            if op["op"] == "create":
                created.add(op["path"])
            elif op["op"] == "delete" and op["path"] in created:
                p = op["path"]
                if any(o["side"] != side and p in _paths(o) for o in window):
                    return True
    return False


def hp(window, flavour):
    """Path-id side in a same-path conflict: that side's user creates or deletes a path the other side's user also
    operates on in the window (the engine may then act on a path id whose object the user has just replaced)."""
    for side in (0, 1):
        if flavour[side] != "p":
            continue
        mine = {op["path"] for op in window if op["side"] == side and op["op"] in ("create", "delete", "mkdir", "rmdir")}
        theirs = set()
        for op in window:
            if op["side"] != side:
                theirs.update(_paths(op))
        if mine & theirs:
            return True
    return False


def any_hazard(sched, flavour=None):
    hs = set()
    for w in windows(sched):
        if flavour is not None and hp(w, flavour):
            hs.add("HP")
        if hq(w):
            hs.add("HQ")
        if flavour is not None and hc(w, flavour):
            hs.add("HC")
        if hd(w):
            hs.add("HD")
        if hf(w):
            hs.add("HF")
        if ht(w):
            hs.add("HT")
        if hx(w):
            hs.add("HX")
    return hs
