"""Deterministic probes of the known findings: frozen histories + schedules, one or more per mechanism, stored in
probes/<K>.json.  A probe that still fails is reported as a KNOWN-FINDING hit; one that passes reports nothing."""
import glob
import json
import os

from .shard import Acc, unjson
from .workload import brief_case

VERIF = os.path.dirname(os.path.dirname(os.path.abspath(__file__)))


def load(prop):
    out = []
    for path in sorted(glob.glob(os.path.join(VERIF, "probes", "*.json"))):
        with open(path) as f:
            d = unjson(json.load(f))
        if prop in d["properties"]:
            out.append(d)
    return out


def run_probes(prop, acc, runfn, tries=3):
    """runfn(case) -> list of problems (or None on harness error)."""
    for d in load(prop):
        for case in d["cases"]:
            if case.get("oracle") and prop not in case["oracle"]:
                continue
            hit = False
            for k in range(tries):
                c = dict(case)
                c["sim_seed"] = case.get("sim_seed", 0) + k
                probs = runfn(c)
                acc.count("probe_runs")
                if probs:
                    hit = True
                    break
            if hit:
                acc.known_hit(d["id"], brief_case(case))
                break
