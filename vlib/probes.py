"""Deterministic probes of the known findings: frozen histories + schedules, one or more per mechanism, stored in
probes/<K>.json.  A probe that still fails is reported as a KNOWN-FINDING hit; one that passes reports nothing."""
import glob
import json
import os

from .shard import Acc, unjson
from .workload import brief_case

VERIF = os.path.dirname(os.path.dirname(os.path.abspath(__file__)))


def load(prop):
    out = []
    for path in sorted(glob.glob(os.path.join(VERIF, "probes", "K*.json"))):
        with open(path) as f:
            d = unjson(json.load(f))
        if prop in d["properties"]:
            out.append(d)
    return out


def run_probes(prop, acc, runfn, tries=3):
    """runfn(case) -> list of problems (or None on harness error)."""
    for d in load(prop):
        for case in d["cases"]:
            if case.get("oracle") and prop not in case["oracle"]:
                continue
            hit = False
            for k in range(tries):
                c = dict(case)
                c["sim_seed"] = case.get("sim_seed", 0) + k
                probs = runfn(c)
                acc.count("probe_runs")
                if probs:
                    hit = True
                    break
            if hit:
                acc.known_hit(d["id"], brief_case(case))
                break


FIXED_DEMOS = {"C18": ("F13", "F14"), "C14": ("F16",), "C15": ("F17", "F18")}


def run_fixed_demos(prop, acc):
    """Deterministic witnesses of repaired defects (probes/F*_demo.py) are re-run against the tree under test: a fixed
    entry suppresses nothing - if the defect returns, the witness exits 1 and that is a violation."""
    import subprocess
    import sys
    from . import load as _load
    for fid in FIXED_DEMOS.get(prop, ()):
        demo = os.path.join(VERIF, "probes", "%s_demo.py" % fid)
        try:
            r = subprocess.run([sys.executable, "-B", demo, _load.REPO], stdout=subprocess.PIPE, stderr=subprocess.STDOUT,
                               timeout=180)
            rc, out = r.returncode, r.stdout.decode("utf8", "replace")[-400:]
        except subprocess.TimeoutExpired:
            rc, out = "timeout", ""
        acc.evaluations += 1
        acc.count("fixed_defect_witnesses_rerun")
        acc.add("fixed_defect_witnesses", fid)
        if rc == 1:
            acc.violation("fixed_defect_returned_" + fid, [out.strip().splitlines()[-1] if out.strip() else ""],
                          {"family": "WITNESS", "fixed": fid})
        elif rc != 0:
            acc.inconclusive.append("witness %s did not run to a verdict (rc=%s): %s" % (fid, rc, out[-200:]))
