"""Entry point of one shard process:  python -m vlib.shardmain PROP TIER SEED SHARD NSHARDS OUTFILE"""
import importlib
import json
import random
import sys
import time
import traceback


class Ctx:
    def __init__(self, prop, tier, seed, shard, nshards):
        self.prop, self.tier, self.seed, self.shard, self.nshards = prop, tier, seed, shard, nshards
        self.t0 = time.time()

    def rng(self, *parts):
        return random.Random("%s:%s:%s:%s" % (self.seed, self.prop, self.shard, ":".join(map(str, parts))))

    def elapsed(self):
        return time.time() - self.t0


def main(argv):
    prop, tier, seed, shard, nshards, out = argv[1], argv[2], int(argv[3]), int(argv[4]), int(argv[5]), argv[6]
    from vlib.shard import Acc
    acc = Acc()
    try:
        mod = importlib.import_module("props." + prop.lower())
        mod.shard(Ctx(prop, tier, seed, shard, nshards), acc)
    except BaseException:               # noqa  -- reported as harness error => inconclusive
        acc.errors.append(traceback.format_exc(limit=15))
    with open(out, "w") as f:
        json.dump(acc.to_json(), f)


if __name__ == "__main__":
    main(sys.argv)
