"""Subprocess-per-shard fan-out, result accumulation and merging.  Never multiprocessing.Pool: a dying child
must not hang the parent; every shard has a wall-clock watchdog whose firing is *inconclusive*, not a violation."""
import collections
import json
import os
import subprocess
import sys
import tempfile
import threading
import time

VERIF = os.path.dirname(os.path.dirname(os.path.abspath(__file__)))
PY = sys.executable


class Acc:
    """Accumulator of what one shard (or the merged run) observed."""

    def __init__(self):
        self.evaluations = 0
        self.sigs = set()                               # distinct non-trivial case signatures
        self.counters = collections.Counter()           # summed
        self.sets = collections.defaultdict(set)        # unioned (small vocabularies: flavours, call sites...)
        self.maxes = {}
        self.samples = []
        self.violations = []                            # dicts: {kind, detail, case}
        self.known = collections.Counter()              # finding id -> hits (classified failures)
        self.known_samples = {}
        self.inconclusive = []                          # reasons
        self.errors = []                                # harness errors (tracebacks)

    def count(self, name, n=1):
        self.counters[name] += n

    def add(self, name, value):
        self.sets[name].add(value)

    def maxi(self, name, v):
        if v is not None and (name not in self.maxes or v > self.maxes[name]):
            self.maxes[name] = v

    def sample(self, s, cap=4):
        if len(self.samples) < cap:
            self.samples.append(s)

    def violation(self, kind, detail, case=None, cap=25):
        self.counters["violations_total"] += 1
        if len(self.violations) < cap:
            self.violations.append({"kind": kind, "detail": detail, "case": case})

    def known_hit(self, kid, sample=None):
        self.known[kid] += 1
        if sample is not None and kid not in self.known_samples:
            self.known_samples[kid] = sample

    def to_json(self):
        from .workload import jsonable
        return {
            "evaluations": self.evaluations,
            "sigs": sorted(self.sigs),
            "counters": dict(self.counters),
            "sets": {k: sorted(map(str, v)) for k, v in self.sets.items()},
            "maxes": self.maxes,
            "samples": jsonable(self.samples),
            "violations": jsonable_full(self.violations),
            "known": dict(self.known),
            "known_samples": jsonable(self.known_samples),
            "inconclusive": self.inconclusive,
            "errors": self.errors[:5],
        }

    def merge_json(self, d):
        self.evaluations += d.get("evaluations", 0)
        self.sigs.update(d.get("sigs", ()))
        for k, v in d.get("counters", {}).items():
            self.counters[k] += v
        for k, v in d.get("sets", {}).items():
            self.sets[k].update(v)
        for k, v in d.get("maxes", {}).items():
            self.maxi(k, v)
        for s in d.get("samples", ()):
            self.sample(s, cap=5)
        for v in d.get("violations", ()):
            if len(self.violations) < 50:
                self.violations.append(v)
        for k, v in d.get("known", {}).items():
            self.known[k] += v
        for k, v in d.get("known_samples", {}).items():
            self.known_samples.setdefault(k, v)
        self.inconclusive.extend(d.get("inconclusive", ()))
        self.errors.extend(d.get("errors", ()))


def jsonable_full(x):
    """Like workload.jsonable but keeps every byte (replay files must be exact)."""
    if isinstance(x, bytes):
        return {"b": x.decode("latin1")}
    if isinstance(x, dict):
        return {str(k): jsonable_full(v) for k, v in x.items()}
    if isinstance(x, (list, tuple)):
        return [jsonable_full(v) for v in x]
    if isinstance(x, (set, frozenset)):
        return sorted(jsonable_full(v) for v in x)
    if isinstance(x, (str, int, float, bool)) or x is None:
        return x
    return repr(x)


def unjson(x):
    """Inverse of jsonable_full."""
    if isinstance(x, dict):
        if set(x.keys()) == {"b"} and isinstance(x["b"], str):
            return x["b"].encode("latin1")
        return {k: unjson(v) for k, v in x.items()}
    if isinstance(x, list):
        return [unjson(v) for v in x]
    return x


def fanout(prop, tier, seed, nshards, timeout, extra_env=None, workers=None):
    """Run nshards shard processes (at most `workers` at a time); returns (merged Acc, meta)."""
    workers = workers or min(nshards, os.cpu_count() or 4)
    outdir = tempfile.mkdtemp(prefix="verif-%s-" % prop)
    env = dict(os.environ)
    env.update({"PYTHONHASHSEED": "0", "PYTHONDONTWRITEBYTECODE": "1", "VERIF_SCRATCH_BASE": outdir})
    env.pop("PYTHONPATH", None)
    if extra_env:
        env.update(extra_env)
    acc = Acc()
    meta = {"shards": nshards, "timeouts": 0, "crashed": 0}
    sem = threading.Semaphore(workers)
    lock = threading.Lock()

    def one(i):
        with sem:
            out = os.path.join(outdir, "shard-%d.json" % i)
            cmd = [PY, "-B", "-m", "vlib.shardmain", prop, tier, str(seed), str(i), str(nshards), out]
            t0 = time.time()
            try:
                p = subprocess.run(cmd, cwd=VERIF, env=env, timeout=timeout, stdout=subprocess.PIPE,
                                   stderr=subprocess.PIPE)
                rc, err = p.returncode, p.stderr.decode("utf8", "replace")[-2000:]
            except subprocess.TimeoutExpired:
                rc, err = "timeout", ""
            with lock:
                if rc == "timeout":
                    meta["timeouts"] += 1
                    acc.inconclusive.append("shard %d hit the %ds wall-clock watchdog" % (i, timeout))
                    return
                try:
                    with open(out) as f:
                        acc.merge_json(json.load(f))
                except Exception as e:          # noqa
                    meta["crashed"] += 1
                    acc.inconclusive.append("shard %d produced no result (rc=%s): %s" % (i, rc, err[-600:]))
                meta.setdefault("shard_wall", []).append(round(time.time() - t0, 1))

    threads = [threading.Thread(target=one, args=(i,)) for i in range(nshards)]
    for t in threads:
        t.start()
    for t in threads:
        t.join()
    import shutil
    shutil.rmtree(outdir, ignore_errors=True)
    return acc, meta
