"""Virtual clock installed as the ``time`` module global of the cloudsync modules that read time.

Each of these modules does ``import time`` and calls ``time.time()/sleep()/monotonic()``: the module global
is the seam.  time() ticks a little on every call so that two reads never return the same instant (the engine
relies on change stamps increasing, state.py mark_changed); sleep() only advances virtual time.
"""
import importlib
import time as _real

MODULES = (
    "cloudsync.sync.state",
    "cloudsync.sync.manager",
    "cloudsync.event",
    "cloudsync.runnable",
    "cloudsync.smartsync",
    "cloudsync.providers.mock",
    "cloudsync.provider",
    "cloudsync.long_poll",
)


class VClock:
    def __init__(self, start=1_000_000.0, tick=0.0002):
        self.now = start
        self.tick = tick
        self.sleeps = []            # requested sleep durations (most recent last), bounded
        self.reads = 0

    # -- the subset of the time module the engine uses
    def time(self):
        self.reads += 1
        self.now += self.tick
        return self.now

    def monotonic(self):
        return self.time()

    def sleep(self, secs):
        if secs and secs > 0:
            self.now += secs
        if len(self.sleeps) < 10000:
            self.sleeps.append(secs)

    def advance(self, secs):
        self.now += secs

    def __getattr__(self, name):        # anything else (strftime, ...) comes from the real module
        return getattr(_real, name)


def install(clock):
    saved = {}
    for name in MODULES:
        mod = importlib.import_module(name)
        if hasattr(mod, "time"):
            saved[name] = mod.time
            mod.time = clock
    return saved


def uninstall(saved):
    for name, val in saved.items():
        importlib.import_module(name).time = val
