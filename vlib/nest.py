"""NEST family: folder renames/moves on one side racing with content operations inside those folders on the other side,
on id-stable providers.  Operations are addressed by *object* (the harness resolves an object's current path on the
acting side through its stable id when the operation runs), so every user operation is valid whatever the engine has
or has not propagated yet, and the expected result is a timing-independent object graph.

Only co-operations that the pinned engine handles are generated (DESIGN 2.4: for id-stable providers a folder rename
tolerates, in the same window, file create / write / in-place rename / move between folders / move in, and removal of
an empty folder; it does NOT tolerate mkdir below it, or a delete / move-out of a child on the other side: hazard HD)."""
import io
import random

from . import sim as S
from . import oracles as O
from . import workload as W

FLAVOURS = ("oo", "of", "fo")


class Graph:
    """object graph: id -> {'name','parent','type','data'}; parent None = root"""

    def __init__(self):
        self.o = {}
        self.n = 0

    def add(self, name, parent, typ, data=None):
        self.n += 1
        self.o[self.n] = {"name": name, "parent": parent, "type": typ, "data": data}
        return self.n

    def path(self, i):
        parts = []
        while i is not None:
            parts.append(self.o[i]["name"])
            i = self.o[i]["parent"]
        return "/".join(reversed(parts))

    def tree(self):
        return {self.path(i): (("dir",) if v["type"] == "dir" else ("file", v["data"])) for i, v in self.o.items()}

    def dirs(self):
        return [i for i, v in self.o.items() if v["type"] == "dir"]

    def files(self):
        return [i for i, v in self.o.items() if v["type"] == "file"]

    def below(self, i, anc):
        while i is not None:
            if i == anc:
                return True
            i = self.o[i]["parent"]
        return False


def make_case(seed, index, flavours=FLAVOURS, one_sided=False):
    rng = random.Random("%s:NEST:%d:%s" % (seed, index, one_sided))
    names = W.Names(rng)
    cont = W.Contents(rng)
    flavour = flavours[index % len(flavours)]
    shape = W.SHAPES[(index // len(flavours)) % len(W.SHAPES)]
    bside = rng.randrange(2)
    g = Graph()
    base = []
    for _ in range(rng.choice((2, 3))):
        d = g.add(names.fresh("d"), None, "dir")
        base.append(d)
        for _ in range(rng.randrange(1, 4)):
            base.append(g.add(names.fresh("f"), d, "file", cont.fresh(bside, rng.choice((12, 700, 3000)))))
        if rng.random() < 0.85:
            s = g.add(names.fresh("s"), d, "dir")
            base.append(s)
            for _ in range(rng.randrange(1, 4)):
                base.append(g.add(names.fresh("f"), s, "file", cont.fresh(bside, 12)))
    base_graph = {i: dict(v) for i, v in g.o.items()}
    # folders are split into volatile ones (renamed / moved by x) and stable ones; a file is only moved OUT of a folder
    # whose whole ancestor chain is stable (a move-out racing with a rename of the source folder is hazard HD)
    # top-level folders are mostly volatile, sub-folders mostly stable: files in a stable sub-folder of a volatile
    # folder are the ones that can be moved up while an ancestor is being renamed
    volatile = set(d for d in g.dirs() if rng.random() < (0.8 if g.o[d]["parent"] is None else 0.25))

    def chain_stable(i):
        i = g.o[i]["parent"]
        while i is not None:
            if i in volatile:
                return False
            i = g.o[i]["parent"]
        return True
    x = rng.randrange(2)            # folder owner: renames / moves folders
    y = x if one_sided else 1 - x   # content owner: works inside them (one_sided: the same user does both)
    ops = []
    gap = W.Gen(rng).gap
    for _ in range(rng.randrange(3, 9)):
        r = rng.random()
        if r < 0.4:
            if not volatile:
                continue
            d = rng.choice(sorted(volatile))
            if rng.random() < 0.7:
                new = names.fresh("D")
                ops.append({"side": x, "k": "rename_dir", "obj": d, "name": new})
                g.o[d]["name"] = new
            else:
                # a folder is only moved while its own ancestors are stable (else it is itself a child moved out)
                if not chain_stable(d):
                    continue
                targets = [t for t in g.dirs() + [None] if t != g.o[d]["parent"] and (t is None or not g.below(t, d))]
                if not targets:
                    continue
                t = rng.choice(targets)
                new = names.fresh("D")
                ops.append({"side": x, "k": "move_dir", "obj": d, "to": t, "name": new})
                g.o[d]["parent"], g.o[d]["name"] = t, new
        else:
            side = y if rng.random() < 0.8 else x
            k = rng.choice(("write", "rename_file", "move_file", "move_file", "create"))
            files = g.files()
            if k == "create" or not files:
                d = rng.choice(g.dirs() + [None])
                data = cont.fresh(side, 12)
                name = names.fresh("n")
                i = g.add(name, d, "file", data)
                g.o[i]["by"] = side
                ops.append({"side": side, "k": "create", "obj": i, "parent": d, "name": name, "data": data})
            elif k == "write":
                f = rng.choice(files)
                if g.o[f].get("by") is not None:
                    continue            # one operation per file and case (a second one racing with a folder rename: HD)
                data = cont.fresh(side, rng.choice((12, 1500)))
                g.o[f]["data"] = data
                g.o[f]["by"] = side
                ops.append({"side": side, "k": "write", "obj": f, "data": data})
            elif k == "rename_file":
                f = rng.choice(files)
                if g.o[f].get("by") is not None:
                    continue
                new = names.fresh("r")
                g.o[f]["name"] = new
                g.o[f]["by"] = side
                ops.append({"side": side, "k": "rename_file", "obj": f, "name": new})
            else:
                deep = [ff for ff in files if g.o[ff].get("by") is None and g.o[ff]["parent"] is not None
                        and g.o[g.o[ff]["parent"]]["parent"] is not None]
                f = rng.choice(deep) if deep and rng.random() < 0.7 else rng.choice(files)
                if g.o[f].get("by") is not None:
                    continue
                # the move must not take the file out of a volatile folder: every volatile ancestor of the file has to be
                # an ancestor of the target as well (moves between levels *inside* a folder that is being renamed are fine)
                vol_anc = [a for a in volatile if g.below(g.o[f]["parent"], a)] if g.o[f]["parent"] is not None else []
                cands = [d for d in g.dirs() + [None] if d != g.o[f]["parent"]
                         and all(d is not None and g.below(d, a) for a in vol_anc)]
                if vol_anc:
                    # inside a folder that is being renamed only moves *up* (to an ancestor folder of the file) are
                    # generated; moves down into sub-folders of a folder renamed concurrently fail on the pinned tree (HD)
                    cands = [d for d in cands if d is not None and g.below(g.o[f]["parent"], d)]
                if not cands:
                    continue
                t = rng.choice(cands)
                new = names.fresh("m")
                g.o[f]["parent"], g.o[f]["name"], g.o[f]["by"] = t, new, side
                ops.append({"side": side, "k": "move_file", "obj": f, "to": t, "name": new})
        ops.extend({"step": e[0]} for e in gap(shape))
    return {"family": "NEST1" if one_sided else "NEST", "flavour": flavour, "shape": shape, "bside": bside,
            "base_graph": base_graph, "ops": ops, "expect": g.tree(), "index": index, "sim_seed": rng.getrandbits(32),
            "sched": [], "base": [], "one_sided": one_sided, "actor": x}


def run_case(case, monitors=()):
    """-> (problems, sim-closed stats)"""
    sim = S.Sim(case["flavour"], rng=random.Random(case["sim_seed"]))
    probs = []
    stats = {"steps": 0, "writes": 0, "user_ops": 0, "rejected": 0}
    try:
        g = Graph()
        g.o = {int(i): dict(v) for i, v in case["base_graph"].items()}
        bs = case["bside"]
        # base tree in id order (parents first)
        for i in sorted(g.o):
            v = g.o[i]
            p = g.path(i)
            if v["type"] == "dir":
                sim.user({"side": bs, "op": "mkdir", "path": p})
            else:
                sim.user({"side": bs, "op": "create", "path": p, "data": v["data"]})
        sim.quiesce()
        oid = [{}, {}]
        for side in (0, 1):
            for i in g.o:
                info = sim.providers[side].info_path(sim.abspath(side, g.path(i)))
                if info is None:
                    return [("base_not_synchronised", g.path(i), side)], stats
                oid[side][i] = info.oid
        sim.world.calls_base = len(sim.world.calls)

        gr = Graph()                # running graph: where the (single) user has put things so far (one-sided cases)
        gr.o = {int(i): dict(v) for i, v in case["base_graph"].items()}
        one = bool(case.get("one_sided"))

        def cur_path(side, i):
            if i is None:
                return sim.roots[side]
            if one:
                return sim.abspath(side, gr.path(i)) if i in gr.o else None
            info = sim.providers[side].info_oid(oid[side][i])
            return info.path if info else None

        pending_new = {}            # objects created after the base: (side -> oid) known only on the creating side
        for op in case["ops"]:
            if "step" in op:
                if op["step"] == "Q":
                    sim.quiesce()
                else:
                    sim.step(op["step"])
                continue
            side, k = op["side"], op["k"]
            p = sim.providers[side]
            w = sim.world
            w.ctx = "user"
            stats["user_ops"] += 1
            try:
                if k == "create":
                    par = cur_path(side, op["parent"]) if op["parent"] in oid[side] or op["parent"] is None else None
                    if par is None:
                        stats["rejected"] += 1
                        probs.append(("harness: parent folder not present on the acting side", op))
                        break
                    info = p.create(par.rstrip("/") + "/" + op["name"], io.BytesIO(op["data"]))
                    oid[side][op["obj"]] = info.oid
                    gr.o[op["obj"]] = {"name": op["name"], "parent": op["parent"], "type": "file", "data": op["data"]}
                elif one:
                    cp = cur_path(side, op["obj"])
                    info = p.info_path(cp)
                    if info is None:
                        probs.append(("harness: object not at its model path on the acting side", op, cp))
                        break
                    if k == "write":
                        p.upload(info.oid, io.BytesIO(op["data"]))
                    elif k in ("rename_file", "rename_dir"):
                        p.rename(info.oid, cp.rsplit("/", 1)[0] + "/" + op["name"])
                        gr.o[op["obj"]]["name"] = op["name"]
                    elif k in ("move_file", "move_dir"):
                        tp = cur_path(side, op["to"])
                        p.rename(info.oid, tp.rstrip("/") + "/" + op["name"])
                        gr.o[op["obj"]]["parent"], gr.o[op["obj"]]["name"] = op["to"], op["name"]
                else:
                    if op["obj"] not in oid[side]:
                        # created on the other side and not yet known here: wait for it (bounded)
                        probs.append(("harness: object unknown on the acting side", op))
                        break
                    o = oid[side][op["obj"]]
                    if k == "write":
                        p.upload(o, io.BytesIO(op["data"]))
                    elif k in ("rename_file", "rename_dir"):
                        cp = cur_path(side, op["obj"])
                        p.rename(o, cp.rsplit("/", 1)[0] + "/" + op["name"])
                    elif k in ("move_file", "move_dir"):
                        tp = cur_path(side, op["to"])
                        if tp is None:
                            probs.append(("harness: target folder not present on the acting side", op))
                            break
                        p.rename(o, tp.rstrip("/") + "/" + op["name"])
            except S.ex.CloudException as e:
                stats["rejected"] += 1
                probs.append(("harness: user op rejected %s" % type(e).__name__, op))
                break
        if not probs:
            sim.quiesce()
            L, R = sim.tree(0), sim.tree(1)
            probs.extend(O.exact_problems(L, case["expect"], "local_tree"))
            probs.extend(O.exact_problems(R, case["expect"], "remote_tree"))
            stats["diverged"] = O.converged_problems(L, R)[:3]
            cp = O.conflicted_paths(L, R)
            if cp:
                probs.append(("conflicted_artefact", cp[:3]))
        stats["steps"] = sim.steps
        stats["writes"] = len(O.engine_writes(sim, since=sim.world.calls_base))
        if one:
            ow = [c for c in O.engine_writes(sim, side=case["actor"], since=sim.world.calls_base) if c.get("ok") and c.get("ev")]
            if ow and not any(str(q[0]).startswith("harness") for q in probs):
                probs.append(("engine_write_on_origin_side", [O.brief_call(c) for c in ow[:2]]))
    except S.NotQuiescent as e:
        probs.append(("not_quiescent", str(e)))
    finally:
        sim.close()
    return probs, stats


def brief(case):
    out = []
    for op in case["ops"][:30]:
        if "step" in op:
            out.append(op["step"])
        else:
            out.append("%s:%s obj%s%s" % ("LR"[op["side"]], op["k"], op["obj"], (" -> " + op["name"]) if op.get("name") else ""))
    return {"family": "NEST", "flavour": case["flavour"], "shape": case["shape"], "base_objects": len(case["base_graph"]), "ops": out}


def hd2(case):
    """Input predicate: some file that is created / written / renamed / moved in the case has, over the case, two or more
    folder renames/moves on its ancestor chain (the same folder twice, or two nested folders).  Measured on the pinned
    tree: the rare NEST failures (about 1 in 30 000 cases) all lie inside this predicate - the engine's handling of a child
    change racing with *one* rename of an enclosing folder is solid, with two it depends on the order of intake (K1)."""
    parent = {int(i): v["parent"] for i, v in case["base_graph"].items()}
    folder_ops = []         # (position, folder)
    file_ops = []           # (position, file)
    moves = []              # (position, obj, new parent)
    for pos, op in enumerate(case["ops"]):
        k = op.get("k")
        if k in ("rename_dir", "move_dir"):
            folder_ops.append((pos, op["obj"]))
            if k == "move_dir":
                moves.append((pos, op["obj"], op["to"]))
        elif k in ("write", "rename_file", "move_file", "create"):
            file_ops.append((pos, op["obj"]))
            if k == "move_file":
                moves.append((pos, op["obj"], op["to"]))
            if k == "create":
                parent[op["obj"]] = op["parent"]

    def ancestors_ever(f):
        # every folder that is an ancestor of f at some point of the case
        out = set()
        par = dict(parent)
        timeline = [dict(par)]
        for _, obj, to in moves:
            par[obj] = to
            timeline.append(dict(par))
        for snap in timeline:
            i = snap.get(f)
            seen = 0
            while i is not None and seen < 50:
                out.add(i)
                i = snap.get(i)
                seen += 1
        return out
    for _, f in file_ops:
        anc = ancestors_ever(f)
        if sum(1 for _, d in folder_ops if d in anc) >= 2:
            return True
    return False
