"""SimSync: deterministic driver of the real cloudsync engine + boundary taps (observation and injection).

One engine step is exactly one iteration of a production service loop: ``mgr.run(until=lambda: True)``
(do() inside Runnable.run's own exception/backoff handling, no sleep).  Bare ``do()`` is never called.
"""
import io
import os
import random
import shutil
import sys
import traceback

from . import load as _load
from . import vclock as _vclock

cloudsync = _load.load()

from cloudsync import exceptions as ex                                  # noqa: E402
from cloudsync.event import EventManager                                # noqa: E402
from cloudsync.providers.mock import MockProvider                       # noqa: E402
from cloudsync.sync.state import Storage                                # noqa: E402
from cloudsync.types import DIRECTORY, FILE                             # noqa: E402
from cloudsync.notification import NotificationType, SourceEnum        # noqa: E402

sys.path.insert(1, os.path.join(_load.REPO, "cloudsync", "tests", "fixtures"))

QCAP = 3000

LOCAL, REMOTE = 0, 1

# flavour letter -> (oid_is_path, case_sensitive, filter_events)
FLAVOUR = {
    "o": (False, True, False),
    "p": (True, True, False),
    "f": (False, True, True),
    "i": (False, False, False),
    "d": (False, True, False, True),    # ids stable, folder deletions reported without an id (as Dropbox does)
}
FLAVOURS_ALL = ("oo", "po", "pp", "op", "of", "fo", "oi", "io")
FLAVOURS_MAIN = ("oo", "po", "pp", "op", "of")

WRITES = ("create", "upload", "rename", "delete", "mkdir")
READS = ("download", "info_oid", "info_path", "listdir", "exists_oid", "exists_path", "hash_oid")


class Crash(BaseException):
    """Simulated process death (not an Exception: nothing in the engine may handle it)."""


class NotQuiescent(Exception):
    pass


class World:
    """Flags shared by all taps of one Sim."""

    def __init__(self):
        self.ctx = "user"           # 'user' | 'engine' | 'oracle'
        self.dead = False           # set at the crash instant: every later engine call / storage write raises Crash
        self.step = None            # label of the running step
        self.seq = 0
        self.calls = []             # engine-issued outermost provider calls (dicts)
        self.user_calls = []
        self.engine_writes = 0
        self.injected = []          # injected faults (dicts)
        self.record_reads = False

    def nseq(self):
        self.seq += 1
        return self.seq


def _mock_storage_cls():
    import importlib.util
    path = os.path.join(_load.REPO, "cloudsync", "tests", "fixtures", "mock_storage.py")
    spec = importlib.util.spec_from_file_location("verif_mock_storage", path)
    mod = importlib.util.module_from_spec(spec)
    spec.loader.exec_module(mod)
    return mod.MockStorage


MockStorage = _mock_storage_cls()


COMMIT_SEQ = [0]        # incremented at every SyncState.storage_commit() entry (see hook_storage_commit)
_commit_hooked = [False]


def hook_storage_commit():
    """Class-level observation of commit boundaries: which storage writes belong to the same storage_commit()."""
    if _commit_hooked[0]:
        return
    from cloudsync.sync.state import SyncState          # pylint: disable=import-outside-toplevel
    orig = SyncState.storage_commit

    def storage_commit(self):
        COMMIT_SEQ[0] += 1
        return orig(self)
    SyncState.storage_commit = storage_commit
    _commit_hooked[0] = True


class StorageFailure(Exception):
    """what a backend raises when a write fails for a moment (sqlite 'database is locked', a full disk, ...)"""


class StorageTap(Storage):
    """Storage delegating to a real backend; counts writes; can die *before* the k-th write."""

    def __init__(self, world, inner):
        self.world = world
        self.inner = inner
        self.writes = 0
        self.crash_before = None        # 1-based index of the write to die before
        self.fail_at = None             # 1-based index of a write that raises once (transient storage failure)
        self.failed = 0
        self.log = []                   # (op, tag, eid)
        self.on_write = None            # callback(op, tag, eid, data) after an applied write

    def _w(self, op, tag, eid):
        if self.world.ctx == "oracle":
            return
        if self.world.dead:
            raise Crash("dead")
        self.writes += 1
        if self.crash_before is not None and self.writes == self.crash_before:
            self.world.dead = True
            self.world.crash_site = ("storage", op, tag, self.writes, COMMIT_SEQ[0])
            raise Crash("before storage write %d" % self.writes)
        if self.fail_at is not None and self.writes == self.fail_at:
            self.failed += 1
            raise StorageFailure("injected transient failure of storage write %d (%s)" % (self.writes, op))
        if len(self.log) < 5000:
            self.log.append((op, tag, eid, COMMIT_SEQ[0]))

    def create(self, tag, serialization):
        self._w("create", tag, None)
        eid = self.inner.create(tag, serialization)
        if self.on_write:
            self.on_write("create", tag, eid, serialization)
        return eid

    def update(self, tag, serialization, eid):
        self._w("update", tag, eid)
        r = self.inner.update(tag, serialization, eid)
        if self.on_write:
            self.on_write("update", tag, eid, serialization)
        return r

    def delete(self, tag, eid):
        self._w("delete", tag, eid)
        r = self.inner.delete(tag, eid)
        if self.on_write:
            self.on_write("delete", tag, eid, None)
        return r

    def read_all(self, tag=None):
        if tag is None:
            return self.inner.read_all()
        return self.inner.read_all(tag)

    def read(self, tag, eid):
        return self.inner.read(tag, eid)

    def close(self):
        if hasattr(self.inner, "close"):
            self.inner.close()


class ProviderTap:
    """Wraps the instance methods of one MockProvider.  Records outermost calls, injects faults."""

    def __init__(self, world, prov, side):
        self.world = world
        self.prov = prov
        self.side = side
        self.depth = 0
        self.cur_op = None
        self.op_api = 0                 # _api() calls made by the running outermost provider call
        self.api_calls = 0              # engine-context _api() calls that are fault sites
        self.fault_plan = None          # callable(tap, api_index, api_args) -> exception instance or None
        self.after_plan = None          # callable(tap, write_index, op) -> exception or None (raised AFTER the op took effect)
        self.crash_after = None         # die after the k-th engine write (global index in world.engine_writes)
        self.corrupt = None             # callable(oid, path) -> bool: engine download raises CloudCorruptError
        self.torn = None                # callable(oid, path) -> bool: engine download breaks off after half of the bytes
        self.mangler = None             # callable(iterator_of_events) -> iterator
        self.perm_fail = None           # callable(op, path_before, path_target) -> exception or None (engine ctx)
        self.yielded = set()            # cursor indices of events handed to the engine and not yet processed by it
        self.orig = {}
        for name in WRITES + READS:
            self._wrap(name)
        self._wrap_api()
        self._wrap_events()

    # ---- helpers reading the mock's table directly (observation only)
    def obj(self, oid):
        return self.prov._mock_fs.get(oid)              # pylint: disable=protected-access

    def path_of(self, oid):
        o = self.obj(oid)
        return o.path if o is not None and o.exists else None

    def bytes_of(self, oid):
        o = self.obj(oid)
        if o is not None and o.exists and o.type == o.FILE:
            return o.contents
        return None

    def _wrap(self, name):
        orig = getattr(self.prov, name)
        self.orig[name] = orig
        tap = self
        world = self.world
        is_write = name in WRITES

        def wrapper(*args, **kwargs):
            if tap.depth > 0 or world.ctx == "oracle":
                return orig(*args, **kwargs)
            engine = world.ctx == "engine"
            if engine and world.dead:
                raise Crash("dead")
            if not engine and not is_write:
                return orig(*args, **kwargs)
            if engine and not is_write and not world.record_reads and tap.corrupt is None and tap.perm_fail is None \
                    and tap.torn is None:
                # fast path for engine reads
                tap.depth += 1
                tap.op_api = 0
                tap.cur_op = name
                try:
                    return orig(*args, **kwargs)
                finally:
                    tap.depth -= 1
                    tap.cur_op = None
            rec = {"seq": world.nseq(), "side": tap.side, "op": name, "step": world.step}
            data = None
            if name in ("create", "upload"):
                data = args[1].read()
                args = (args[0], io.BytesIO(data)) + tuple(args[2:])
                rec["data"] = data
            if name in ("create", "mkdir"):
                rec["path"] = args[0]
            elif name in ("info_path", "exists_path"):
                rec["path"] = args[0]
            else:
                rec["oid"] = args[0]
                rec["path"] = tap.path_of(args[0])
                if name in ("upload", "delete"):
                    rec["victim"] = tap.bytes_of(args[0])
                o = tap.obj(args[0])
                rec["otype"] = None if o is None else ("dir" if o.type == o.DIR else "file")
            if name == "rename":
                rec["to"] = args[1]
            if engine and tap.perm_fail is not None:
                e = tap.perm_fail(name, rec.get("path"), rec.get("to"))
                if e is not None:
                    rec["exc"] = type(e).__name__
                    rec["perm"] = True
                    world.calls.append(rec)
                    raise e
            if engine and name == "download" and tap.corrupt is not None and tap.corrupt(args[0], rec.get("path")):
                rec["exc"] = "CloudCorruptError"
                world.calls.append(rec)
                world.injected.append({"kind": "corrupt", "side": tap.side, "path": rec.get("path"), "seq": rec["seq"]})
                raise ex.CloudCorruptError("injected corrupt read %s" % rec.get("path"))
            buf = None
            if name == "download":
                buf = io.BytesIO()
                real_out = args[1]
                args = (args[0], buf)
            tap.depth += 1
            tap.op_api = 0
            tap.cur_op = name
            nev = len(tap.prov._events)                 # pylint: disable=protected-access
            try:
                ret = orig(*args, **kwargs)
                rec["ev"] = len(tap.prov._events) - nev     # provider events registered = the call was effective
                if buf is not None:
                    rec["data"] = buf.getvalue()
                    if engine and tap.torn is not None and len(rec["data"]) > 1 and tap.torn(args[0], rec.get("path")):
                        # the transfer breaks off half way: the caller's handle has received the first half
                        real_out.write(rec["data"][:len(rec["data"]) // 2])
                        world.injected.append({"kind": "torn_download", "side": tap.side, "path": rec.get("path"),
                                               "seq": rec["seq"]})
                        raise ex.CloudTemporaryError("injected: download of %s broke off half way" % rec.get("path"))
                    real_out.write(rec["data"])
                if name == "rename":
                    rec["new_oid"] = ret
                elif name in ("create", "upload"):
                    rec["new_oid"] = ret.oid
                    rec["path_after"] = ret.path
                elif name == "mkdir":
                    rec["new_oid"] = ret
                rec["ok"] = True
            except Crash:
                rec["exc"] = "Crash"
                raise
            except BaseException as e:          # noqa
                rec["exc"] = type(e).__name__
                raise
            finally:
                tap.depth -= 1
                tap.cur_op = None
                if engine:
                    world.calls.append(rec)
                else:
                    world.user_calls.append(rec)
            if engine and is_write:
                world.engine_writes += 1
                rec["widx"] = world.engine_writes
                if tap.crash_after is not None and world.engine_writes == tap.crash_after:
                    world.dead = True
                    world.crash_site = ("provider", name, tap.side, world.engine_writes)
                    raise Crash("after provider write %d" % world.engine_writes)
                if tap.after_plan is not None:
                    e = tap.after_plan(tap, world.engine_writes, name)
                    if e is not None:
                        rec["after_exc"] = type(e).__name__
                        world.injected.append({"kind": "after:" + type(e).__name__, "side": tap.side, "op": name,
                                               "seq": rec["seq"]})
                        raise e
            return ret

        setattr(self.prov, name, wrapper)

    def _wrap_api(self):
        orig = self.prov._api                       # pylint: disable=protected-access
        tap = self
        world = self.world

        def api(*args, **kwargs):
            if world.ctx == "engine":
                if world.dead:
                    raise Crash("dead")
                # only the first API round trip of an outermost provider call is a fault site: the mock calls _api
                # again after it has started mutating (debug logging walks the tree), and a fault there would tear
                # the provider operation itself, which no real provider does
                tap.op_api += 1
                if tap.depth > 0 and tap.op_api > 1:
                    return orig(*args, **kwargs)
                tap.api_calls += 1
                if tap.fault_plan is not None:
                    e = tap.fault_plan(tap, tap.api_calls, args)
                    if e is not None:
                        fr = sys._getframe(1)       # pylint: disable=protected-access
                        names = []
                        while fr is not None and len(names) < 40:
                            names.append(fr.f_code.co_name)
                            fr = fr.f_back
                        world.injected.append({"kind": type(e).__name__, "side": tap.side, "api": tap.api_calls,
                                               "op": tap.cur_op, "apiarg": args[0] if args else None,
                                               "stack": names, "step": world.step, "seq": world.nseq()})
                        if isinstance(e, (ex.CloudDisconnectedError, ex.CloudTokenError)):
                            tap.prov.disconnect()
                        raise e
                return orig(*args, **kwargs)
            # users and the oracle have their own session with the account: the engine's connection state (which
            # injected faults drop) does not concern them
            return None

        self.prov._api = api                        # pylint: disable=protected-access

    def _wrap_events(self):
        orig = self.prov.events
        tap = self

        def tracked(src):
            for ev in src:
                c = getattr(ev, "new_cursor", None)
                if c is not None:
                    tap.yielded.add(c)
                yield ev

        def events():
            if tap.world.ctx == "engine" and tap.world.dead:
                raise Crash("dead")
            src = tracked(orig())
            if tap.mangler is None:
                return src
            return tap.mangler(src)

        self.prov.events = events


class Sim:
    """Two connected mock providers + storage + one CloudSync (or SmartCloudSync) built from /repo."""

    def __init__(self, flavour="oo", *, storage="mock", smart=False, roots=("/local", "/remote"),
                 use_root_oids=False, aging=0.0, resolver=None, prioritize=None, translate=None,
                 rng=None, clock=True, sqlite_path=None, handler=None, quota=None, hash_funcs=(None, None)):
        self.flavour = flavour
        self.rng = rng or random.Random(0)
        self.world = World()
        self.world.crash_site = None
        self.roots = roots
        self.use_root_oids = use_root_oids
        self.smart = smart
        self.aging = aging
        self.resolver = resolver
        self.prioritize = prioritize
        self.translate = translate
        self.handler = handler
        self.notifications = []         # delivered to the application handler, in order
        self.raised = []                # notify() calls observed at the queue boundary
        self.steps = 0
        self.step_log = []
        self.restarts = 0
        self.auth_calls = []
        self.clock = None
        self._saved_time = None
        if clock:
            self.clock = _vclock.VClock()
            self._saved_time = _vclock.install(self.clock)
        fl, fr = FLAVOUR[flavour[0]], FLAVOUR[flavour[1]]
        self.providers = (
            MockProvider(fl[0], fl[1], filter_events=fl[2], quota=quota, hash_func=hash_funcs[0],
                         oidless_folder_trash_events=len(fl) > 3 and fl[3]),
            MockProvider(fr[0], fr[1], filter_events=fr[2], quota=quota, hash_func=hash_funcs[1],
                         oidless_folder_trash_events=len(fr) > 3 and fr[3]),
        )
        self.providers[0].name += "-l"
        self.providers[1].name += "-r"
        for p in self.providers:
            p.connect({"key": "val"})
        self.taps = (ProviderTap(self.world, self.providers[0], 0), ProviderTap(self.world, self.providers[1], 1))
        self.storage_kind = storage
        self.sqlite_path = sqlite_path
        self._storage_dict = {}
        if storage == "mock":
            self._inner_storage = MockStorage(self._storage_dict)
        elif storage == "sqlite":
            from cloudsync.sync.sqlite_storage import SqliteStorage     # pylint: disable=import-outside-toplevel
            if not sqlite_path:
                self.sqlite_path = os.path.join(_load.scratch_dir(), "st-%x.db" % self.rng.getrandbits(64))
            self._inner_storage = SqliteStorage(self.sqlite_path)
        elif storage is None:
            self._inner_storage = None
        else:
            raise ValueError(storage)
        self.storage = StorageTap(self.world, self._inner_storage) if self._inner_storage is not None else None
        self.root_oids = None
        if use_root_oids:
            self.root_oids = (self.providers[0].mkdir(roots[0]), self.providers[1].mkdir(roots[1]))
        self.cs = None
        self.build_engine()
        # like the suite's fixtures: validate/create the roots before anything else (one sync-loop iteration)
        self.step("S")

    # ------------------------------------------------------------------ engine construction
    def build_engine(self):
        sim = self
        base = cloudsync.SmartCloudSync if self.smart else cloudsync.CloudSync

        class HarnessSync(base):          # not @strict: may carry harness attributes
            def handle_notification(self, notification):
                sim.notifications.append(notification)
                if sim.handler is not None:
                    sim.handler(notification)

            def resolve_conflict(self, f1, f2):
                if sim.resolver is None:
                    return None
                return sim.resolver(f1, f2)

            def prioritize(self, side, path):
                if sim.prioritize is None:
                    return 0
                return sim.prioritize(side, path)

            def translate(self, side, path):
                if sim.translate is not None:
                    return sim.translate(self, side, path)
                return base.translate(self, side, path)

            def authenticate(self, side):
                sim.auth_calls.append(side)
                self.providers[side].connect({"key": "val"})

        kw = {}
        if self.use_root_oids:
            kw["root_oids"] = self.root_oids
            cs = HarnessSync(self.providers, self.roots, storage=self.storage, sleep=None, **kw)
        else:
            cs = HarnessSync(self.providers, self.roots, storage=self.storage, sleep=None)
        cs.aging = self.aging
        # observe notifications at the queue boundary as well
        nm = cs.nmgr
        orig_notify = nm.notify

        def notify(e, _orig=orig_notify):
            if e is not None:
                sim.raised.append(e)
            return _orig(e)
        nm.notify = notify
        self.cs = cs
        self.mgrs = {"E0": cs.emgrs[0], "E1": cs.emgrs[1], "S": cs.smgr}
        self.nominal_sleep = {"E0": cs.sleep[0], "E1": cs.sleep[1], "S": 0.1}
        return cs

    @property
    def state(self):
        return self.cs.state

    # ------------------------------------------------------------------ stepping
    def step(self, name):
        """One iteration of one production service loop."""
        mgr = self.mgrs[name]
        w = self.world
        w.ctx = "engine"
        w.step = "%s#%d" % (name, self.steps)
        n_unh = len(_load.unhandled)
        try:
            mgr.run(until=lambda: True, sleep=0)
        finally:
            w.ctx = "user"
            w.step = None
        if self.clock is not None:
            # production loops sleep between iterations (backoff, else the loop's nominal sleep: provider.default_sleep
            # for the event loops, 0.1 s for the sync loop, cs.py start()); virtual time advances by exactly that
            self.clock.advance(mgr.in_backoff if mgr.in_backoff > 0 else self.nominal_sleep[name])
        self.steps += 1
        if len(self.step_log) < 4000:
            self.step_log.append(name)
        if len(_load.unhandled) > n_unh and not w.dead:
            return _load.unhandled[n_unh:]
        return None

    def drain_notifications(self):
        """Deliver queued notifications through the real NotificationManager loop (as the suite does)."""
        nm = self.cs.nmgr
        nm.notify(None)
        nm.run(sleep=0)

    def busy(self):
        w = self.world
        prev = w.ctx
        w.ctx = "engine"
        try:
            return bool(self.cs.busy)
        except Crash:
            raise
        except Exception:               # e.g. provider disconnected by an injected fault
            return True
        finally:
            w.ctx = prev

    def quiesce(self, cap=QCAP, order=None, on_step=None):
        """Step until two consecutive full rounds (E0,E1,S once each) leave the engine not busy and write-free."""
        quiet = 0
        used = 0
        names = ["E0", "E1", "S"]
        while quiet < 2:
            if used >= cap:
                raise NotQuiescent("not quiescent after %d steps" % used)
            if order is None:
                self.rng.shuffle(names)
            else:
                names = list(order)
            w0 = self.world.engine_writes
            for n in names:
                self.step(n)
                used += 1
                if on_step is not None:
                    on_step(n)
                if self.world.dead:
                    return used
            b = self.busy()
            if not b and self.world.engine_writes == w0 and not self._mangler_pending():
                quiet += 1
            else:
                quiet = 0
        return used

    def _mangler_pending(self):
        for t in self.taps:
            m = t.mangler
            if m is not None and getattr(m, "pending", None) and m.pending():
                return True
        return False

    # ------------------------------------------------------------------ restart / crash
    def abandon(self):
        """Drop the engine object the way a dead process would (no done(), no final commit)."""
        cs = self.cs
        for p in self.providers:
            EventManager._provider_guard.remove(p)                      # pylint: disable=protected-access
        try:
            shutil.rmtree(cs.smgr.tempdir, ignore_errors=True)
        except Exception:                                               # pragma: no cover
            pass
        self.cs = None

    def shutdown_cleanly(self):
        """What a final stop does at a step boundary: every service's cleanup hook runs (CloudSync.done)."""
        w = self.world
        prev = w.ctx
        w.ctx = "engine"
        try:
            self.cs.done()
        except Exception:               # noqa  a raising cleanup hook is the engine's business: recorded, not fatal here
            from . import load as _load
            _load.unhandled.append(("CloudSync.done", "Exception", fmt_exc()[-300:]))
        finally:
            w.ctx = prev

    def restart(self, mode="intact"):
        """New engine over the same provider instances and the same storage.  mode 'clean' = intact storage after a clean
        shutdown (cleanup hooks run); the other modes abandon the engine the way a killed process would."""
        if mode == "clean":
            self.shutdown_cleanly()
            mode = "intact"
        self.abandon()
        self.world.dead = False
        self.world.crash_site = None
        for t in self.taps:
            t.crash_after = None
        if self.storage is not None:
            self.storage.crash_before = None
            if self.storage_kind == "sqlite":
                from cloudsync.sync.sqlite_storage import SqliteStorage  # pylint: disable=import-outside-toplevel
                self._inner_storage.close()
                self._inner_storage = SqliteStorage(self.sqlite_path)
                self.storage.inner = self._inner_storage
            if mode in ("nocursor", "badcursor"):
                allrows = self._inner_storage.read_all()
                for tag, rows in allrows.items():
                    if "_cursor" in tag:
                        for eid in list(rows):
                            if mode == "nocursor":
                                self._inner_storage.delete(tag, eid)
                            else:
                                self._inner_storage.update(tag, "rejected-cursor", eid)
        for p in self.providers:
            if not p.connected:
                p.connect({"key": "val"})
        self.restarts += 1
        return self.build_engine()

    def close(self):
        if self.cs is not None:
            try:
                self.abandon()
            except Exception:           # pragma: no cover
                pass
        if self.storage is not None:
            try:
                self.storage.close()
            except Exception:           # pragma: no cover
                pass
        if self.storage_kind == "sqlite" and self.sqlite_path:
            for suf in ("", "-wal", "-shm"):
                try:
                    os.unlink(self.sqlite_path + suf)
                except OSError:
                    pass
        if self._saved_time is not None:
            _vclock.uninstall(self._saved_time)
            self._saved_time = None

    # ------------------------------------------------------------------ user operations
    def abspath(self, side, rel):
        root = self.roots[side]
        if rel in ("", "/"):
            return root
        if rel.startswith("//"):        # absolute path outside the root convention: '//x' -> '/x'
            return rel[1:]
        return root.rstrip("/") + "/" + rel.strip("/")

    def user(self, op):
        """Apply one user operation directly to a provider.  Returns the op dict annotated with the outcome."""
        side = op["side"]
        p = self.providers[side]
        kind = op["op"]
        w = self.world
        prev = w.ctx
        w.ctx = "user"
        out = dict(op)
        try:
            if kind == "create":
                info = p.create(self.abspath(side, op["path"]), io.BytesIO(op["data"]))
                out["oid"] = info.oid
            elif kind == "mkdir":
                out["oid"] = p.mkdir(self.abspath(side, op["path"]))
            elif kind in ("write", "delete", "rmdir"):
                info = p.info_path(self.abspath(side, op["path"]))
                if info is None:
                    raise ex.CloudFileNotFoundError(op["path"])
                out["oid"] = info.oid
                if kind == "write":
                    out["old"] = self.taps[side].bytes_of(info.oid)
                    p.upload(info.oid, io.BytesIO(op["data"]))
                else:
                    out["old"] = self.taps[side].bytes_of(info.oid)
                    p.delete(info.oid)
            elif kind in ("rename", "rendir"):
                info = p.info_path(self.abspath(side, op["path"]))
                if info is None:
                    raise ex.CloudFileNotFoundError(op["path"])
                out["oid"] = info.oid
                out["new_oid"] = p.rename(info.oid, self.abspath(side, op["to"]))
            else:
                raise ValueError(kind)
            out["ok"] = True
        except ex.CloudException as e:
            out["ok"] = False
            out["exc"] = type(e).__name__
        finally:
            w.ctx = prev
        return out

    # ------------------------------------------------------------------ observation through the public provider API
    def tree(self, side, root=None):
        """relative path -> ('dir',) | ('file', bytes), read through listdir/download only."""
        w = self.world
        prev = w.ctx
        w.ctx = "oracle"
        p = self.providers[side]
        try:
            root = root if root is not None else self.roots[side]
            info = p.info_path(root)
            out = {}
            if info is None:
                return out
            self._walk(p, info.oid, "", out)
            return out
        finally:
            w.ctx = prev

    def _walk(self, p, oid, rel, out):
        for ent in list(p.listdir(oid)):
            name = ent.name
            r = (rel + "/" + name) if rel else name
            if ent.otype == DIRECTORY:
                out[r] = ("dir",)
                self._walk(p, ent.oid, r, out)
            else:
                b = io.BytesIO()
                p.download(ent.oid, b)
                out[r] = ("file", b.getvalue())

    def whole_tree(self, side):
        """Everything the provider holds (absolute paths), for confinement checks."""
        w = self.world
        prev = w.ctx
        w.ctx = "oracle"
        p = self.providers[side]
        try:
            out = {}
            info = p.info_path("/")
            self._walk(p, info.oid, "", out)
            return {"/" + k: v for k, v in out.items()}
        finally:
            w.ctx = prev


def fmt_exc():
    return traceback.format_exc(limit=12)
