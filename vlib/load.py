"""Import cloudsync from /repo's working tree (never the site-packages copy) and prepare the process.

Every shard is a fresh interpreter, so "rebuild from /repo's current working tree" for this pure-Python
repository means: /repo first on sys.path, assert the origin of the imported package.
"""
import atexit
import logging
import os
import shutil
import sys
import tempfile
import warnings

REPO = os.environ.get("VERIF_REPO", "/repo")
GUARD = "CLOUDSYNC_VERIF"

_scratch = None
unhandled = []          # (service, exc_type_name, message) seen by Runnable.run's generic handlers


class _RunnableLogTap(logging.Handler):
    """Observes the two 'unhandled exception' branches of Runnable.run (they only log)."""

    def emit(self, record):
        try:
            msg = record.getMessage()
        except Exception:               # pragma: no cover
            msg = str(record.msg)
        if "unhandled exception in" in msg or "very serious exception in" in msg:
            et = record.exc_info[0].__name__ if record.exc_info and record.exc_info[0] else "?"
            ev = repr(record.exc_info[1])[:200] if record.exc_info else ""
            unhandled.append((msg.rsplit(" ", 1)[-1], et, ev))


def scratch_dir():
    """Per-process scratch directory outside /repo and /verif, removed at exit."""
    global _scratch
    if _scratch is None:
        base = os.environ.get("VERIF_SCRATCH_BASE") or tempfile.gettempdir()
        _scratch = tempfile.mkdtemp(prefix="cloudsync-verif-", dir=base)
        atexit.register(shutil.rmtree, _scratch, True)
        # every SyncManager makes a "*.cloudsync" temp dir via tempfile.mkdtemp(): keep them in the scratch dir
        tempfile.tempdir = _scratch
    return _scratch


def load():
    """Returns the cloudsync package imported from REPO."""
    os.environ[GUARD] = "1"
    warnings.filterwarnings("ignore")
    if sys.path[0] != REPO:
        sys.path.insert(0, REPO)
    sys.dont_write_bytecode = True      # never write __pycache__ into /repo
    import cloudsync                    # pylint: disable=import-outside-toplevel
    origin = os.path.realpath(cloudsync.__file__)
    if not origin.startswith(os.path.realpath(REPO) + os.sep):
        raise RuntimeError("cloudsync imported from %s, not from %s" % (origin, REPO))
    # silence logging, but keep log-call arguments evaluated (debug_sig etc. run for real)
    root = logging.getLogger("cloudsync")
    root.setLevel(logging.CRITICAL + 10)
    root.propagate = False
    for h in list(root.handlers):
        root.removeHandler(h)
    root.addHandler(logging.NullHandler())
    rl = logging.getLogger("cloudsync.runnable")
    rl.setLevel(logging.ERROR)
    rl.propagate = False
    if not any(isinstance(h, _RunnableLogTap) for h in rl.handlers):
        rl.addHandler(_RunnableLogTap())
    logging.getLogger().setLevel(logging.CRITICAL + 10)
    logging.raiseExceptions = False
    scratch_dir()
    return cloudsync
