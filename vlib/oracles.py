"""Oracles over observed trees, calls and engine state.  Each returns a list of problems (empty = nothing seen)."""
import copy

import msgpack

from . import sim as S
from .runner import Monitor


# ------------------------------------------------------------------------------------------------ trees
def is_conflicted(path):
    return any(".conflicted" in comp for comp in path.split("/"))


def short(v):
    if v is None:
        return None
    if v[0] == "dir":
        return "dir"
    b = v[1]
    return "file:%r(%d)" % (b[:14], len(b))


def converged_problems(L, R):
    """C01: same paths/types/bytes; only '.conflicted'-named objects may exist on one side only."""
    out = []
    for k in sorted(set(L) | set(R)):
        a, b = L.get(k), R.get(k)
        if a == b:
            continue
        if (a is None or b is None) and is_conflicted(k):
            continue
        out.append(("diverged", k, short(a), short(b)))
    return out


def exact_problems(tree, expect, label):
    out = []
    expect = {k: tuple(v) for k, v in expect.items()}       # JSON round trips turn tuples into lists
    for k in sorted(set(tree) | set(expect)):
        a, b = tree.get(k), expect.get(k)
        if a != b:
            out.append(("unexpected_" + label, k, short(a), "expected " + str(short(b))))
    return out


def conflicted_paths(*trees):
    return sorted({k for t in trees for k in t if is_conflicted(k)})


# ------------------------------------------------------------------------------------------------ content ledger
class ContentLedger(Monitor):
    """must_survive = written - destroyed; a version is destroyed exactly when a *user* op overwrote or deleted a file
    instance holding it at that moment.  Engine calls that remove the last copy are flagged when they happen."""

    def __init__(self):
        self.written = {}           # bytes -> description of the write
        self.destroyed = set()
        self.early = []             # engine calls that destroyed a last copy (early witness)
        self._ncalls = 0

    def after_base(self, sim, case):
        for op in case.get("base", ()):
            if op["op"] == "create" and op.get("data"):
                self.written[op["data"]] = "base %s" % op["path"]
        self._ncalls = len(sim.world.calls)

    def after_user(self, sim, rec):
        if not rec.get("ok"):
            return
        if rec["op"] in ("create", "write") and rec.get("data"):
            self.written[rec["data"]] = "%s %s %s" % ("LR"[rec["side"]], rec["op"], rec["path"])
        if rec["op"] in ("write", "delete") and rec.get("old"):
            self.destroyed.add(rec["old"])

    def must_survive(self):
        return {v: d for v, d in self.written.items() if v not in self.destroyed}

    def after_step(self, sim, name):
        calls = sim.world.calls
        for c in calls[self._ncalls:]:
            if c.get("ok") and c["op"] in ("delete", "upload") and c.get("victim"):
                v = c["victim"]
                if v in self.written and v not in self.destroyed and c.get("data") != v:
                    # still somewhere?
                    if not self._exists_somewhere(sim, v):
                        self.early.append((c["op"], c["side"], c.get("path"), v[:14], c["step"]))
        self._ncalls = len(calls)

    @staticmethod
    def _exists_somewhere(sim, v):
        for p in sim.providers:
            for o in p._mock_fs.fs_objects():           # pylint: disable=protected-access
                if o.exists and o.contents == v:
                    return True
        return False

    def lost(self, L, R):
        have = {v[1] for t in (L, R) for v in t.values() if v[0] == "file"}
        return [(d, v[:14], len(v)) for v, d in self.must_survive().items() if v not in have]


# ------------------------------------------------------------------------------------------------ engine calls
def engine_writes(sim, side=None, since=0):
    return [c for c in sim.world.calls[since:] if c["op"] in S.WRITES and (side is None or c["side"] == side)]


def brief_call(c):
    d = {k: c[k] for k in ("side", "op", "path", "to", "step", "exc") if k in c and c[k] is not None}
    if "data" in c and c["data"] is not None:
        d["data"] = "%r(%d)" % (c["data"][:12], len(c["data"]))
    return d


# ------------------------------------------------------------------------------------------------ C11 index walker
def index_problems(state):
    """Structural walk of SyncState's indexes + the same facts through the public API."""
    out = []
    oids, paths, pending = state._oids, state._paths, state._changeset_storage    # pylint: disable=protected-access
    live = set()
    for side in (0, 1):
        for oid, ent in oids[side].items():
            live.add(ent)
            if ent[side].oid != oid:
                out.append(("oid_slot_stale", side, str(oid)[:40], str(ent[side].oid)[:40]))
        for path, d in paths[side].items():
            if not d:
                out.append(("empty_path_bucket", side, path))
            for oid, ent in d.items():
                if ent[side].path != path or ent[side].oid != oid:
                    out.append(("path_slot_stale", side, path, str(oid)[:40], ent[side].path, str(ent[side].oid)[:40]))
    for ent in live:
        for side in (0, 1):
            ss = ent[side]
            if ss.oid is not None:
                if oids[side].get(ss.oid) is not ent:
                    out.append(("live_entry_not_under_its_oid", side, str(ss.oid)[:40], ss.path))
                if state.lookup_oid(side, ss.oid) is not ent:
                    out.append(("lookup_oid_disagrees", side, str(ss.oid)[:40]))
            if ss.path and ss.oid is not None:
                # a side-state without an id is vacant on that side (an ousted entry keeps a stale path string there):
                # only sides that carry an id are "current" in the statement's sense
                if paths[side].get(ss.path, {}).get(ss.oid) is not ent:
                    out.append(("live_entry_not_under_its_path", side, ss.path, str(ss.oid)[:40]))
                elif ent not in state.lookup_path(side, ss.path, stale=True):
                    out.append(("lookup_path_disagrees", side, ss.path))
    expect = set()
    for ent in live:
        if (ent[0].changed and ent[0].oid is not None) or (ent[1].changed and ent[1].oid is not None):
            expect.add(ent)
    for ent in pending:
        if ent not in live:
            out.append(("forgotten_entry_pending", ent[0].path, ent[1].path))
        elif ent not in expect:
            out.append(("pending_without_change_flag", ent[0].path, ent[1].path, ent[0].changed, ent[1].changed,
                        ent.ignored.value))
    for ent in expect:
        if ent not in pending:
            out.append(("change_flag_not_pending", ent[0].path, ent[1].path, ent[0].changed, ent[1].changed,
                        ent.ignored.value))
    return out


class IndexMonitor(Monitor):
    def __init__(self):
        self.problems = []
        self.walks = 0

    def _walk(self, sim, where):
        self.walks += 1
        if len(self.problems) < 5:
            ps = index_problems(sim.state)
            if ps:
                self.problems.append((where, ps[:4]))

    def after_step(self, sim, name):
        self._walk(sim, name)

    def after_restart(self, sim, mode):
        self._walk(sim, "restart")


# ------------------------------------------------------------------------------------------------ C08 persistence
FIELDS = ("otype", "hash", "sync_hash", "path", "sync_path", "oid", "exists", "_saved_exists")


def decode_row(b):
    ser = msgpack.loads(b, use_list=False, raw=False)
    out = {}
    for sk in ("side0", "side1"):
        s = ser[sk]
        out[sk] = {f: s.get(f) for f in FIELDS}
        out[sk]["pending"] = bool(s.get("changed"))
    out["ignored"] = ser.get("ignored")
    return out


def persist_problems(sim):
    """storage rows of the sync's tag == the engine's live entries (field by field), no stale/missing rows,
    nothing left dirty."""
    st = sim.state
    out = []
    tag = st._tag                                           # pylint: disable=protected-access
    rows = sim._inner_storage.read_all(tag)                 # pylint: disable=protected-access
    ents = st.get_all(discarded=True)
    seen = set()
    for ent in ents:
        sid = ent.storage_id
        if sid is None:
            out.append(("live_entry_never_stored", ent[0].path, ent[1].path))
            continue
        seen.add(sid)
        if sid not in rows:
            out.append(("row_missing", sid, ent[0].path, ent[1].path))
            continue
        a, b = decode_row(rows[sid]), decode_row(ent.serialize())
        if a != b:
            diff = [(k, f, a[k][f], b[k][f]) for k in ("side0", "side1") for f in a[k] if a[k][f] != b[k][f]]
            if a["ignored"] != b["ignored"]:
                diff.append(("ignored", a["ignored"], b["ignored"]))
            out.append(("row_differs", sid, ent[0].path, ent[1].path, str(diff)[:300]))
    for sid in rows:
        if sid not in seen:
            out.append(("stale_row", sid, str(decode_row(rows[sid]))[:200]))
    if st._dirtyset:                                        # pylint: disable=protected-access
        out.append(("dirty_after_step", len(st._dirtyset)))  # pylint: disable=protected-access
    return out


def state_digest(st, paths=None):
    """What the public lookups answer: per side id -> entry (storage id + fields), path -> entries (default, i.e.
    non-stale lookup), pending set; entries are identified by storage id."""
    d = {"oid": [{}, {}], "path": [{}, {}], "pending": set()}
    for side in (0, 1):
        for oid in list(st._oids[side]):                    # pylint: disable=protected-access
            if oid is None:
                continue
            ent = st.lookup_oid(side, oid)
            d["oid"][side][oid] = (ent.storage_id, str(decode_row(ent.serialize())))
        keys = set(k for k in st._paths[side] if k is not None)     # pylint: disable=protected-access
        if paths is not None:
            keys |= paths[side]
        for path in keys:
            d["path"][side][path] = sorted(str(e.storage_id) for e in st.lookup_path(side, path))
    for ent in st.changes:
        d["pending"].add(ent.storage_id)
    return d


def path_keys(st):
    return [set(k for k in st._paths[side] if k is not None) for side in (0, 1)]     # pylint: disable=protected-access


def reload_problems(sim):
    """A SyncState loaded from a copy of storage answers like the live one."""
    import cloudsync                                        # pylint: disable=import-outside-toplevel
    st = sim.state
    if sim.storage_kind != "mock":
        return []
    snap = S.MockStorage(copy.deepcopy(sim._storage_dict))  # pylint: disable=protected-access
    cls = type(st)
    other = cls(sim.providers, snap, st._tag)               # pylint: disable=protected-access
    pk = [x | y for x, y in zip(path_keys(st), path_keys(other))]
    a, b = state_digest(st, pk), state_digest(other, pk)
    out = []
    for side in (0, 1):
        la = {k: v for k, v in a["oid"][side].items() if k is not None}
        lb = {k: v for k, v in b["oid"][side].items() if k is not None}
        if la != lb:
            ks = [k for k in set(la) | set(lb) if la.get(k) != lb.get(k)]
            out.append(("reload_oid_lookup_differs", side, str([(k, la.get(k), lb.get(k)) for k in ks[:2]])[:400]))
        if a["path"][side] != b["path"][side]:
            ks = [k for k in set(a["path"][side]) | set(b["path"][side]) if a["path"][side].get(k) != b["path"][side].get(k)]
            out.append(("reload_path_lookup_differs", side, str([(k, a["path"][side].get(k), b["path"][side].get(k)) for k in ks[:2]])[:400]))
    if a["pending"] != b["pending"]:
        out.append(("reload_pending_differs", sorted(map(str, a["pending"] ^ b["pending"]))[:5]))
    return out


class PersistMonitor(Monitor):
    def __init__(self, reload_every=0, rng=None):
        self.problems = []
        self.checks = 0
        self.reloads = 0
        self.reload_every = reload_every
        self.rows_compared = 0

    def after_step(self, sim, name):
        if sim.storage is None or sim.world.dead:
            return
        self.checks += 1
        if len(self.problems) < 5:
            ps = persist_problems(sim)
            self.rows_compared += len(sim.state._oids[0]) + len(sim.state._oids[1])      # pylint: disable=protected-access
            if ps:
                self.problems.append((name, sim.steps, ps[:4]))
            if self.reload_every and self.checks % self.reload_every == 0:
                self.reloads += 1
                ps = reload_problems(sim)
                if ps:
                    self.problems.append((name, sim.steps, ps[:4]))


# ------------------------------------------------------------------------------------------------ cursor monitor
_processed_hooked = [False]
_processed_log = []         # (id(event manager), side, new_cursor) appended when EventManager._process_event returns


def hook_process_event():
    """Class-level observation of EventManager._process_event completing (observation only)."""
    if _processed_hooked[0]:
        return
    from cloudsync.event import EventManager
    orig = EventManager._process_event                     # pylint: disable=protected-access

    def _process_event(self, event, from_walk=False):
        r = orig(self, event, from_walk=from_walk)
        c = getattr(event, "new_cursor", None)
        if c is not None:
            _processed_log.append((self.side, c))
        return r
    EventManager._process_event = _process_event           # pylint: disable=protected-access
    _processed_hooked[0] = True


class CursorMonitor(Monitor):
    """The persisted event cursor never runs ahead of an event that was handed to the engine but not yet processed:
    at every write of a cursor row with value c no event with index <= c may be 'yielded and unprocessed'; after a
    restart the stored cursor must lie below every such event (it will be delivered again)."""

    def __init__(self):
        hook_process_event()
        self.problems = []
        self.cursor_writes = 0
        self.checked_restarts = 0

    def on_sim(self, sim, case):
        del _processed_log[:]
        self.sim = sim
        if sim.storage is not None:
            sim.storage.on_write = self._on_write

    def _side_of(self, tag):
        for side in (0, 1):
            if (":%s:" % self.sim.providers[side].connection_id) in tag and self.sim.providers[side].name in tag:
                return side
        return None

    def _drain_processed(self):
        for side, c in _processed_log:
            self.sim.taps[side].yielded.discard(c)
        del _processed_log[:]

    def _on_write(self, op, tag, eid, data):
        if "_cursor" not in tag or op == "delete" or not isinstance(data, int):
            return
        side = self._side_of(tag)
        if side is None:
            return
        self._drain_processed()
        self.cursor_writes += 1
        pend = [c for c in self.sim.taps[side].yielded if c <= data]
        if pend and len(self.problems) < 4:
            self.problems.append(("cursor_saved_before_its_events_were_applied", side, data, sorted(pend)[:4]))

    def after_restart(self, sim, mode):
        # the in-memory queue is gone: whatever was yielded and not processed must be delivered again
        self._drain_processed()
        if sim.storage is not None:
            sim.storage.on_write = self._on_write
        if mode in ("nocursor", "badcursor"):
            for t in sim.taps:
                t.yielded.clear()
            return
        self.checked_restarts += 1
        rows = sim._inner_storage.read_all()                # pylint: disable=protected-access
        for tag, r in rows.items():
            if "_cursor" not in tag:
                continue
            side = self._side_of(tag)
            if side is None:
                continue
            for c in r.values():
                if isinstance(c, int):
                    pend = [x for x in sim.taps[side].yielded if x <= c]
                    if pend and len(self.problems) < 4:
                        self.problems.append(("stored_cursor_skips_unprocessed_event", side, c, sorted(pend)[:4]))
        for t in sim.taps:
            t.yielded.clear()


# ------------------------------------------------------------------------------------------------ tracer (debugging aid)
class Tracer(Monitor):
    """Prints user ops, engine writes, restarts and crashes as they happen (VERIF_TRACE=1)."""
    n = 0

    def _flush(self, sim):
        for c in sim.world.calls[self.n:]:
            if c["op"] in S.WRITES or c.get("exc"):
                print("   ENGINE", brief_call(c), "victim=%r" % ((c.get("victim") or b"")[:10]), "ev=%s" % c.get("ev"))
        self.n = len(sim.world.calls)

    def after_step(self, sim, name):
        self._flush(sim)

    def after_user(self, sim, rec):
        self._flush(sim)
        print("USER", "LR"[rec["side"]], rec["op"], rec["path"], rec.get("to"), "ok" if rec.get("ok") else rec.get("exc"),
              "step", sim.steps)

    def before_restart(self, sim, mode):
        print("STOP", mode, "step", sim.steps)

    def at_crash(self, sim):
        self._flush(sim)
        print("CRASH", sim.world.crash_site, "step", sim.steps)
        print(sim.state.pretty_print(use_sigs=False))

    def after_restart(self, sim, mode):
        print("RESTARTED", mode)
        print(sim.state.pretty_print(use_sigs=False))

    def at_quiescence(self, sim, final):
        self._flush(sim)
        if final:
            print("FINAL", sorted(sim.tree(0)), sorted(sim.tree(1)))
            print(sim.state.pretty_print(use_sigs=False))
