"""Case selection shared by the engine checks: which family / flavour / shape / size a given case index gets.
Diversity is by construction (round-robin over the product), not luck; the PRNG only fills in the details."""
import random

from . import workload as W
from . import sim as S
from . import hazards as H

MAIN_FAMILIES = ("ONE0", "ONE1", "DISJ", "CONF", "REUSE0", "REUSE1", "REUSE2")


def make_case(seed, prop, index, families=MAIN_FAMILIES, flavours=S.FLAVOURS_MAIN, shapes=W.SHAPES,
              nops=(4, 12), weights=None):
    rng = random.Random("%s:%s:case:%d" % (seed, prop, index))
    fam = families[index % len(families)]
    flavour = flavours[(index // len(families)) % len(flavours)]
    shape = shapes[(index // (len(families) * len(flavours))) % len(shapes)]
    n = rng.randrange(nops[0], nops[1] + 1)
    g = W.Gen(rng)
    if fam == "ONE0":
        case = g.case_one(flavour, shape, 0, n, base_side=rng.randrange(2), weights=weights)
    elif fam == "ONE1":
        case = g.case_one(flavour, shape, 1, n, base_side=rng.randrange(2), weights=weights)
    elif fam == "DISJ":
        case = g.case_disj(flavour, shape, n, weights=weights)
    elif fam == "CONF":
        case = g.case_conf(flavour, shape, n)
    elif fam in ("SONE0", "SONE1"):
        case = g.case_one(flavour, shape, int(fam[-1]), n, base_side=rng.randrange(2), seek=True)
    elif fam == "SDISJ":
        case = g.case_disj(flavour, shape, n, seek=True)
    elif fam in ("REUSE0", "REUSE1"):
        case = g.case_reuse(flavour, shape, int(fam[-1]), n, base_side=rng.randrange(2))
    elif fam == "REUSE2":
        case = g.case_reuse(flavour, shape, 0, n, base_side=rng.randrange(2), two_sided=True)
    elif fam in ("REMK0", "REMK1"):
        case = g.case_remk(flavour, shape, int(fam[-1]), max(2, n // 2))
    elif fam == "RENCLASH":
        case = g.case_renclash(flavour, shape, n)
    elif fam == "DEEPMK":
        case = g.case_deepmk(flavour, shape, n)
    elif fam == "SWAP":
        case = g.case_swap(flavour, shape, n)
    elif fam == "CLASH":
        case = g.case_conf(flavour, shape, n, clash=True)
    elif fam == "SEEK1":
        case = g.case_seek(flavour, shape, n, False)
    elif fam == "SEEK2":
        case = g.case_seek(flavour, shape, n, True)
    else:
        raise ValueError(fam)
    case["index"] = index
    case["sim_seed"] = rng.getrandbits(32)
    return case


def indices(ctx, total):
    """Case indices of this shard."""
    return range(ctx.shard, total, ctx.nshards)


def hazard_free_by_construction(case):
    return case["family"] in ("ONE0", "ONE1", "DISJ", "CONF", "REUSE0", "REUSE1", "REUSE2")


def classify(case):
    """Known-finding mechanisms (input predicates only) a failing run of this case may be attributed to."""
    hz = H.any_hazard(case["sched"], case["flavour"])
    ks = []
    if "HD" in hz:
        ks.append("K1")
    if "HF" in hz:
        ks.append("K2")     # K2/K3: same mechanism family (HF), same-side vs cross-side
    if "HT" in hz:
        for w in H.windows(case["sched"]):
            for side in (0, 1):
                f, d = H._typed_paths(w, side)          # pylint: disable=protected-access
                if f & d and case["flavour"][side] == "p" and "K13" not in ks:
                    ks.append("K13")
    if "HX" in hz:
        ks.append("K14")
    if "HC" in hz:
        ks.append("K15")
    if "HQ" in hz:
        ks.append("K19")
    if "HP" in hz:
        ks.append("K20")
    return hz, ks
