"""2-second self-test used by MANIFEST.setup_cmd: import /repo's cloudsync, run one engine history, see a tap observation."""
import sys


def main():
    from vlib import sim as S
    sim = S.Sim("oo")
    r = sim.user({"side": 0, "op": "create", "path": "selftest.txt", "data": b"hello"})
    assert r["ok"], r
    sim.quiesce()
    L, R = sim.tree(0), sim.tree(1)
    assert L == R == {"selftest.txt": ("file", b"hello")}, (L, R)
    assert any(c["op"] == "create" and c["side"] == 1 for c in sim.world.calls), "tap saw no engine create"
    sim.close()
    print("selftest ok: cloudsync from", S.cloudsync.__file__)
    return 0


if __name__ == "__main__":
    sys.exit(main())
