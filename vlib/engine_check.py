"""Shared run loop of the engine properties: run a case with monitors, count what was observed, evaluate."""
import hashlib
import os
import random

from . import oracles as O
from . import runner as R
from . import sim as S
from . import workload as W


def run_one(case, acc, evaluate, monitors_factory=None, sim_kwargs=None, extra_rounds=0, pre=None, qcap=S.QCAP,
            count=True, on_crash=None):
    """evaluate(case, obs, sim, monitors) -> list of problems.  Returns problems, or None on harness error."""
    monitors = list(monitors_factory()) if monitors_factory else []
    if os.environ.get("VERIF_TRACE"):
        monitors = monitors + [O.Tracer()]
    kw = dict(sim_kwargs or {})
    kw.setdefault("rng", random.Random(case.get("sim_seed", 0)))
    if case.get("index", 0) % 4 == 3 and "hash_funcs" not in kw:
        # every 4th case pairs providers with different hash algorithms (hashes of the two sides are incomparable)
        kw["hash_funcs"] = (None, lambda b: hashlib.sha256(b).digest())
    obs, sim = R.run_case(case, monitors=monitors, sim_kwargs=kw, keep_sim=True, pre=pre, qcap=qcap, on_crash=on_crash)
    try:
        if count:
            acc.evaluations += 1
        if obs.harness_error:
            acc.errors.append(obs.harness_error)
            return None
        since = getattr(sim.world, "calls_base", 0)
        obs.writes_before_extra = sim.world.engine_writes
        obs.extra_round_writes = []
        if extra_rounds and obs.trees is not None and not sim.world.dead:
            n0 = len(sim.world.calls)
            for _ in range(extra_rounds):
                for n in ("E0", "E1", "S"):
                    sim.step(n)
            obs.extra_round_writes = [c for c in sim.world.calls[n0:] if c["op"] in S.WRITES]
        writes = len(O.engine_writes(sim, since=since))
        if count:
            acc.count("engine_steps", sim.steps)
            acc.count("engine_writes", writes)
            acc.count("user_ops", len(obs.user))
            acc.maxi("max_steps_to_quiescence", max(obs.quiesce_steps) if obs.quiesce_steps else None)
            acc.add("flavours", case["flavour"])
            acc.add("families", case["family"])
            acc.add("shapes", case["shape"])
            if writes:
                acc.sigs.add(W.signature(case))
            seq = [(c["side"], c["op"]) for c in sim.world.calls if c["op"] in S.WRITES]
            acc.sets["engine_call_sequences"].add(hashlib.blake2b(repr(seq).encode(), digest_size=8).hexdigest())
            for o in obs.user:
                acc.count("op_" + o["op"])
        return evaluate(case, obs, sim, monitors)
    finally:
        sim.close()


def coverage_extra(acc, tier):
    return {"distinct_engine_call_sequences": len(acc.sets.get("engine_call_sequences", ())),
            "vocab": {k: sorted(v)[:60] for k, v in sorted(acc.sets.items()) if k != "engine_call_sequences"}}


def replay_with(run_fn):
    """run_fn(case) -> problems.  Standard replay: re-execute up to 10 times, report the reproduction rate."""
    def replay(rep):
        case = rep.get("case")
        if not case:
            print("replay file carries no case:", str(rep.get("detail"))[:500])
            return 2
        hits, n = 0, 10
        for k in range(n):
            c = dict(case)
            c["sim_seed"] = case.get("sim_seed", 0) + k
            probs = run_fn(c)
            if probs:
                hits += 1
                if hits == 1:
                    print("reproduced:", str(probs[:3])[:1500])
        print("reproduction rate %d/%d" % (hits, n))
        return 1 if hits else 0
    return replay
