"""Threaded harness: the real cs.start() (sync thread, one event thread per side, notification thread) with user threads
and application threads, a tiny switch interval, LINE-level yield injection in cloudsync/* code, and lock-ownership
assertions made *inside* the state's mutation hooks (i.e. under whatever lock the code holds at that instant)."""
import io
import random
import sys
import threading
import time
import traceback

from . import load as _load

cloudsync = _load.load()

from cloudsync.event import EventManager                        # noqa: E402
from cloudsync.providers.mock import MockProvider               # noqa: E402
from cloudsync.sync.state import SyncState, SyncEntry           # noqa: E402
from cloudsync.types import DIRECTORY                           # noqa: E402
from . import sim as S                                          # noqa: E402

MUTATORS = ("updated", "_change_path", "_change_oid", "mark_changed", "finished", "split", "storage_commit", "update",
            "update_entry", "forget", "forget_oid")
SMART_MUTATORS = ("_smart_sync_ent", "_smart_unsync_ent")

_tap = {"installed": False, "active": None}


class LockWatch:
    """records, per (method, thread name), how many state mutations were observed and which of them ran without the
    state lock being owned by the mutating thread"""

    def __init__(self):
        self.lock = threading.Lock()
        self.by = {}
        self.unlocked = []

    def note(self, state, method):
        lk = getattr(state, "lock", None)
        if lk is None or getattr(state, "_loading", False):
            return                                  # constructor: not shared yet
        owned = lk._is_owned()                      # pylint: disable=protected-access
        th = threading.current_thread().name
        with self.lock:
            k = (method, th)
            self.by[k] = self.by.get(k, 0) + 1
            if not owned and len(self.unlocked) < 10:
                stack = [f.name for f in traceback.extract_stack(limit=12)][:-2]
                self.unlocked.append((method, th, stack[-8:]))


class WatchedRLock:
    """Stands in for SyncState.lock.  Counts, per thread, how deep the lock is held; inside an *atomic step* (one entry
    synchronisation, one event application - marked by wrappers on SyncManager._sync_one_entry and
    EventManager._process_event) the lock must not be given up completely and then taken again: that would let another
    thread's step run in the middle of this one.  The observation does not depend on another thread actually using the gap."""

    def __init__(self, real):
        self.real = real
        self.tl = threading.local()
        self.problems = []
        self.acquires = 0
        self.meta = threading.Lock()

    def _d(self):
        if not hasattr(self.tl, "depth"):
            self.tl.depth, self.tl.step, self.tl.dropped = 0, 0, False
        return self.tl

    def acquire(self, *a, **kw):
        r = self.real.acquire(*a, **kw)
        if r:
            t = self._d()
            if t.depth == 0 and t.step > 0 and t.dropped:
                with self.meta:
                    if len(self.problems) < 5:
                        stack = [f.name for f in traceback.extract_stack(limit=14)][:-1]
                        self.problems.append((threading.current_thread().name, stack[-9:]))
            t.depth += 1
            if t.step > 0:
                t.held_in_step = True
            self.acquires += 1
        return r

    def release(self):
        t = self._d()
        t.depth -= 1
        if t.depth == 0 and t.step > 0 and t.held_in_step:
            t.dropped = True
        self.real.release()

    __enter__ = acquire

    def __exit__(self, *a):
        self.release()

    def _is_owned(self):
        return self.real._is_owned()                # pylint: disable=protected-access

    def step_enter(self):
        t = self._d()
        if t.step == 0:
            t.dropped = False
            t.held_in_step = t.depth > 0
        t.step += 1

    def step_exit(self):
        t = self._d()
        t.step -= 1
        if t.step == 0:
            t.dropped = False

    def note_held(self):
        t = self._d()
        if t.step > 0 and t.depth > 0:
            t.held_in_step = True


def install_step_tap():
    """marks atomic steps for WatchedRLock (class-level wrappers, active only while a watched lock is installed)"""
    if _tap.get("steps_installed"):
        return
    from cloudsync.sync.manager import SyncManager

    def wrap(cls, name):
        orig = getattr(cls, name)

        def w(self, *a, **kw):
            lk = getattr(self.state, "lock", None)
            if not isinstance(lk, WatchedRLock):
                return orig(self, *a, **kw)
            lk.step_enter()
            try:
                return orig(self, *a, **kw)
            finally:
                lk.step_exit()
        w.__name__ = name
        setattr(cls, name, w)
    wrap(SyncManager, "_sync_one_entry")
    wrap(EventManager, "_process_event")
    _tap["steps_installed"] = True


def install_state_tap():
    if _tap["installed"]:
        return
    from cloudsync.smartsync import SmartSyncState

    def wrap(cls, name):
        orig = getattr(cls, name)

        def w(self, *a, **kw):
            lw = _tap["active"]
            if lw is not None:
                lw.note(self, name)
            return orig(self, *a, **kw)
        w.__name__ = name
        setattr(cls, name, w)
    for n in MUTATORS:
        wrap(SyncState, n)
    for n in SMART_MUTATORS:
        wrap(SmartSyncState, n)
    _tap["installed"] = True


class Yielder:
    """sys.monitoring LINE callback: sleep(0) with probability q on lines of cloudsync/* (other code objects disabled).
    only=<file suffix>: restrict to one source file; pauses=(...): sleep durations to choose from instead of 0."""
    TOOL = 4

    def __init__(self, q, seed, only=None, pauses=(0,)):
        self.only, self.pauses = only, pauses
        self.q = q
        self.rng = random.Random(seed)
        self.lines = 0
        self.yields = 0
        self.on = False

    def start(self):
        mon = getattr(sys, "monitoring", None)
        if mon is None:
            return False
        try:
            mon.use_tool_id(self.TOOL, "verif-yield")
        except ValueError:
            pass
        repo = _load.REPO + "/cloudsync/"

        def cb(code, line):
            fn = code.co_filename
            if not fn.startswith(repo) or "/tests/" in fn or (self.only and not fn.endswith(self.only)):
                return mon.DISABLE
            self.lines += 1
            if self.rng.random() < self.q:
                self.yields += 1
                time.sleep(self.rng.choice(self.pauses))
            return None
        mon.register_callback(self.TOOL, mon.events.LINE, cb)
        mon.set_events(self.TOOL, mon.events.LINE)
        self.on = True
        return True

    def stop(self):
        mon = getattr(sys, "monitoring", None)
        if mon is None or not self.on:
            return
        mon.set_events(self.TOOL, 0)
        mon.register_callback(self.TOOL, mon.events.LINE, None)
        try:
            mon.free_tool_id(self.TOOL)
        except Exception:       # noqa
            pass
        self.on = False


def tree(p, root):
    out = {}
    info = p.info_path(root)
    if info is None:
        return out

    def walk(oid, rel):
        for ent in list(p.listdir(oid)):
            r = (rel + "/" + ent.name) if rel else ent.name
            if ent.otype == DIRECTORY:
                out[r] = ("dir",)
                walk(ent.oid, r)
            else:
                b = io.BytesIO()
                p.download(ent.oid, b)
                out[r] = ("file", b.getvalue())
    walk(info.oid, "")
    return out


def quiesce(cs, rng, cap=4000):
    names = [cs.emgrs[0], cs.emgrs[1], cs.smgr]
    quiet = used = 0
    while quiet < 2:
        if used >= cap:
            return None
        rng.shuffle(names)
        for m in names:
            m.run(until=lambda: True, sleep=0)
            used += 1
        quiet = quiet + 1 if not cs.busy else 0
    return used


def run_threaded(case, seed, smart=False, duration=1.2, yield_q=0.02, poll_busy=False):
    """case: workload case (ONE*/DISJ; step entries are ignored, user ops are applied by one user thread per side).
    -> dict(problems, stats)"""
    install_state_tap()
    rng = random.Random(seed)
    fl = [S.FLAVOUR[c] for c in case["flavour"]]
    provs = (MockProvider(fl[0][0], fl[0][1]), MockProvider(fl[1][0], fl[1][1]))
    provs[0].name += "-l"
    provs[1].name += "-r"
    for p in provs:
        p.connect({"key": "val"})
    roots = ("/local", "/remote")
    storage = S.MockStorage({})
    base = cloudsync.SmartCloudSync if smart else cloudsync.CloudSync
    notes = []

    class TSync(base):
        def handle_notification(self, n):
            notes.append(n)

    cs = TSync(provs, roots, storage=storage, sleep=None)
    cs.aging = 0
    install_step_tap()
    wl = WatchedRLock(cs.state.lock)
    cs.state.lock = wl
    probs = []
    lw = LockWatch()
    stats = {}
    old_si = sys.getswitchinterval()

    def abspath(side, rel):
        return roots[side] + "/" + rel

    def apply(op):
        side = op["side"]
        p = provs[side]
        k = op["op"]
        try:
            if k == "create":
                p.create(abspath(side, op["path"]), io.BytesIO(op["data"]))
            elif k == "mkdir":
                p.mkdir(abspath(side, op["path"]))
            else:
                info = p.info_path(abspath(side, op["path"]))
                if info is None:
                    return False
                if k == "write":
                    p.upload(info.oid, io.BytesIO(op["data"]))
                elif k in ("delete", "rmdir"):
                    p.delete(info.oid)
                elif k in ("rename", "rendir"):
                    p.rename(info.oid, abspath(side, op["to"]))
            return True
        except cloudsync.CloudException:
            return False

    import collections
    import logging
    logbuf = collections.deque(maxlen=60000)

    class _Cap(logging.Handler):
        def emit(self, r):
            try:
                logbuf.append("%s|%s|%s" % (threading.current_thread().name, r.name.rsplit(".", 1)[-1], r.getMessage()[:260]))
            except Exception:       # noqa
                pass
    cap = _Cap()
    lg = logging.getLogger("cloudsync")
    old_level = lg.level
    lg.addHandler(cap)
    lg.setLevel(logging.DEBUG)
    try:
        # roots first (one sync-loop iteration), then the base tree, synchronised deterministically before the threads start
        cs.smgr.run(until=lambda: True, sleep=0)
        for op in case.get("base", ()):
            apply(op)
        if quiesce(cs, rng) is None:
            return {"problems": [("base_not_quiescent",)], "stats": {}}
        _tap["active"] = lw
        yl = Yielder(yield_q, rng.getrandbits(32))
        sys.setswitchinterval(1e-6)
        yl.start()
        cs.start()
        stop_flag = threading.Event()
        rejected = []
        torn = []

        def user(side):
            r = random.Random("%s:u%d" % (seed, side))
            for e in case["sched"]:
                if e[0] != "U" or e[1]["side"] != side:
                    continue
                if not apply(e[1]):
                    rejected.append((side, e[1]["op"], e[1]["path"]))
                time.sleep(r.random() * 0.01)

        def app():
            r = random.Random("%s:app" % seed)
            while not stop_flag.is_set():
                try:
                    k = r.randrange(5)
                    if k == 0:
                        cs.busy                         # pylint: disable=pointless-statement
                    elif k == 1:
                        cs.change_count                 # pylint: disable=pointless-statement
                    elif k == 2:
                        cs.aging = 0
                    elif k == 3:
                        cs.smgr.change_count(side=r.randrange(2))
                    elif smart:
                        try:
                            list(cs.smart_listdir_path(roots[0]))
                        except cloudsync.CloudException:
                            pass
                except Exception as e:                  # noqa  an exception out of a read-only public method: counted,
                    torn.append((type(e).__name__, str(e)[:80]))    # not a verdict (C15 is about read-modify-writes)
                time.sleep(0.002)

        def poller():
            # an application that polls 'busy' as fast as it can (progress indicators do): every poll takes an event from
            # the provider on the application's thread while the event loop is consuming the same stream
            n = 0
            while not stop_flag.is_set():
                try:
                    cs.busy                             # pylint: disable=pointless-statement
                except Exception as e:                  # noqa
                    torn.append((type(e).__name__, str(e)[:80]))
                n += 1
                if n % 20 == 0:
                    time.sleep(0)
            stats["busy_polls"] = n

        def smart_app():
            r = random.Random("%s:sapp" % seed)
            while not stop_flag.is_set():
                try:
                    # request / un-request whatever remote files the state knows about
                    ents = [e for e in list(cs.state.get_all()) if e[1].path and e[1].otype != DIRECTORY]
                    if ents:
                        e = r.choice(ents)
                        k = r.randrange(4)
                        if k == 0:
                            cs.smart_sync_path(e[1].path, 1)
                        elif k == 1 and e[1].oid:
                            cs.smart_sync_oid(e[1].oid)
                        elif k == 2:
                            cs.smart_unsync_path(e[1].path, 1)
                        elif e[1].oid and e in cs.state.requestset:
                            cs.smart_unsync_oid(e[1].oid)
                except cloudsync.CloudException:
                    pass
                except Exception as e:                  # noqa
                    torn.append((type(e).__name__, str(e)[:80]))
                time.sleep(0.003)

        ths = [threading.Thread(target=user, args=(0,), name="user-L"), threading.Thread(target=user, args=(1,), name="user-R"),
               threading.Thread(target=app, name="app")]
        if smart:
            ths.append(threading.Thread(target=smart_app, name="smart-app"))
        if poll_busy:
            ths.append(threading.Thread(target=poller, name="busy-poller"))
        for t in ths:
            t.start()
        ths[0].join()
        ths[1].join()
        t_end = time.time() + duration
        while time.time() < t_end:
            time.sleep(0.05)
        stop_flag.set()
        for t in ths[2:]:
            t.join()
        yl.stop()
        sys.setswitchinterval(old_si)
        cs.stop(forever=True, wait=True)
        _tap["active"] = None
        stats.update(lines=yl.lines, yields=yl.yields, rejected=len(rejected), yield_injection=yl.on or yl.lines > 0,
                     exceptions_from_public_calls=len(torn), exception_kinds=sorted(set(t[0] + ": " + t[1] for t in torn))[:4])
        stats["mutations"] = {"%s@%s" % k: v for k, v in lw.by.items()}
        for u in lw.unlocked:
            probs.append(("state_mutated_without_the_state_lock",) + u)
        for u in wl.problems:
            probs.append(("state_lock_dropped_and_retaken_inside_one_atomic_step",) + u)
        stats["lock_acquisitions_watched"] = wl.acquires
        # deterministic quiescence with a fresh engine over the same providers and storage
        for p in provs:
            if not p.connected:
                p.connect({"key": "val"})
        cs2 = TSync(provs, roots, storage=storage, sleep=None)
        cs2.aging = 0
        if smart:
            stats["smart"] = True
        used = quiesce(cs2, rng)
        if used is None:
            probs.append(("not_quiescent_after_threads_stopped",))
            try:
                pend = list(cs2.state.changes)
                stats["log_about_first_bad_path"] = (["PENDING %s" % (e,) for e in pend[:6]] +
                                                     [l for l in list(logbuf)[-60:]])
            except Exception:       # noqa
                pass
        else:
            L, R = tree(provs[0], roots[0]), tree(provs[1], roots[1])
            stats["final_objects"] = len(L)
            if not smart:
                from . import oracles as O
                if case.get("expect") is not None and not rejected:
                    probs.extend(O.exact_problems(L, case["expect"], "local_tree")[:2])
                    probs.extend(O.exact_problems(R, case["expect"], "remote_tree")[:2])
                else:
                    probs.extend(O.converged_problems(L, R)[:2])
                ip = O.index_problems(cs2.state)
                if ip:
                    probs.append(("index_corrupt_after_threaded_run", ip[:2]))
        for p in provs:
            EventManager._provider_guard.remove(p)      # pylint: disable=protected-access
        cs2.done()
        # witness material for a wrong tree: what the engine logged about the first offending path
        bad = [q for q in probs if str(q[0]).startswith("unexpected_") or q[0] == "diverged"]
        if bad:
            name = str(bad[0][1]).rsplit("/", 1)[-1]
            stats["log_about_first_bad_path"] = [l for l in logbuf if name in l][-80:]
            stats["rejected_ops"] = rejected[:5]
    finally:
        lg.removeHandler(cap)
        lg.setLevel(old_level)
        _tap["active"] = None
        sys.setswitchinterval(old_si)
        try:
            cs.stop(forever=True, wait=False)
        except Exception:       # noqa
            pass
        for p in provs:
            EventManager._provider_guard.remove(p)      # pylint: disable=protected-access
    return {"problems": probs, "stats": stats}


def events_handoff_round(seed, n_ops=150, yield_q=0.15):
    """No-loss monitor at the boundary the engine consumes: one producer (user operations on a MockProvider) and the two
    consumers the engine really has - the event loop, which drains provider.events(), and EventManager.busy, which takes
    one event and abandons the generator (called from application threads).  Every event index the provider ever
    assigned must be delivered to at least one consumer.  -> (problems, stats)"""
    rng = random.Random(seed)
    p = MockProvider(rng.random() < 0.5, True)
    p.connect({"key": "val"})
    p.mkdir("/r")
    for _ in p.events():
        pass
    first = p.latest_cursor
    got = [set(), set()]
    done = threading.Event()
    errs = []

    def producer():
        names = []
        try:
            for i in range(n_ops):
                if names and rng.random() < 0.3:
                    info = p.info_path(rng.choice(names))
                    if info:
                        p.upload(info.oid, io.BytesIO(b"w%d" % i))
                else:
                    nm = "/r/f%d" % i
                    p.create(nm, io.BytesIO(b"c%d" % i))
                    names.append(nm)
                if i % 7 == 0:
                    time.sleep(0)
        except Exception as e:      # noqa
            errs.append(("producer", type(e).__name__, str(e)[:100]))
        finally:
            done.set()

    def loop_consumer():
        try:
            while True:
                fin = done.is_set()
                for e in p.events():
                    got[0].add(e.new_cursor)
                if fin:
                    break
        except Exception as e:      # noqa
            errs.append(("loop", type(e).__name__, str(e)[:100]))

    def busy_consumer():
        try:
            while not done.is_set():
                for e in p.events():
                    got[1].add(e.new_cursor)
                    break
        except Exception as e:      # noqa
            errs.append(("busy", type(e).__name__, str(e)[:100]))

    old_si = sys.getswitchinterval()
    yl = Yielder(yield_q, rng.getrandbits(32))
    sys.setswitchinterval(1e-6)
    yl.start()
    try:
        ths = [threading.Thread(target=f, name=n) for f, n in ((producer, "producer"), (loop_consumer, "event-loop"),
                                                                (busy_consumer, "busy"))]
        for t in ths:
            t.start()
        for t in ths:
            t.join(60)
    finally:
        yl.stop()
        sys.setswitchinterval(old_si)
    for e in p.events():            # whatever is left
        got[0].add(e.new_cursor)
    last = p.latest_cursor
    missing = [c for c in range(first + 1, last + 1) if c not in got[0] and c not in got[1]]
    probs = []
    if errs:
        probs.append(("consumer_or_producer_raised", errs[:2]))
    if missing:
        probs.append(("provider_event_delivered_to_no_consumer", missing[:5], "of", last - first))
    return probs, {"events": last - first, "to_loop": len(got[0]), "to_busy": len(got[1]), "both": len(got[0] & got[1]),
                   "lines": yl.lines, "yields": yl.yields}


def walk_handoff_round(seed, n_files=40, yield_q=0.15):
    """CloudSync.walk() is called by an application thread while the engine's threads run: every walk event it queues must
    be processed.  The files exist before the engine is created, so nothing but the walk can make the engine notice them;
    afterwards a fresh engine (no walk) is stepped to quiescence and every file must be on the other side."""
    rng = random.Random(seed)
    flav = rng.choice((("o", "o"), ("p", "o"), ("o", "p")))
    provs = (MockProvider(flav[0] == "p", True), MockProvider(flav[1] == "p", True))
    for p in provs:
        p.connect({"key": "val"})
    roots = ("/local", "/remote")
    provs[0].mkdir("/local")
    provs[1].mkdir("/remote")
    names = []
    storage = S.MockStorage({})
    cs = cloudsync.CloudSync(provs, roots, storage=storage, sleep=None)
    cs.aging = 0
    # one pass of every loop (start-up walk, cursor initialisation), then the files are created and their events consumed
    # here: only the application's walk can reveal them to the engine
    cs.smgr.run(until=lambda: True, sleep=0)
    for m in cs.emgrs:
        m.run(until=lambda: True, sleep=0)
    for i in range(n_files):
        nm = "/local/w%d.txt" % i
        provs[0].create(nm, io.BytesIO(b"walk-%d" % i))
        names.append(nm)
    for _ in provs[0].events():
        pass
    # a listing that takes time, as a real provider's does: the event loop catches up with the walker again and again
    orig_walk = provs[0].walk

    def slow_walk(*a, **kw):
        for e in orig_walk(*a, **kw):
            time.sleep(rng.random() * 0.004)
            yield e
    provs[0].walk = slow_walk
    old_si = sys.getswitchinterval()
    yl = Yielder(yield_q, rng.getrandbits(32), only="/cloudsync/event.py", pauses=(0, 0.0001, 0.0004))
    errs = []
    try:
        sys.setswitchinterval(1e-6)
        yl.start()
        cs.start()

        def app():
            try:
                time.sleep(rng.random() * 0.01)
                cs.walk(side=0)
            except Exception as e:      # noqa
                errs.append((type(e).__name__, str(e)[:100]))
        t = threading.Thread(target=app, name="app-walk")
        t.start()
        t.join(60)
        t_end = time.time() + 0.6
        while time.time() < t_end:
            time.sleep(0.05)
    finally:
        yl.stop()
        sys.setswitchinterval(old_si)
        cs.stop(forever=True, wait=True)
    for p in provs:
        if not p.connected:
            p.connect({"key": "val"})
    cs2 = cloudsync.CloudSync(provs, roots, storage=storage, sleep=None)
    cs2.aging = 0
    used = quiesce(cs2, rng)
    probs = []
    if errs:
        probs.append(("walk_raised", errs[:2]))
    if used is None:
        probs.append(("not_quiescent_after_threads_stopped",))
    else:
        missing = [n for n in names if provs[1].info_path("/remote/" + n.rsplit("/", 1)[1]) is None]
        if missing:
            probs.append(("walk_event_never_processed", missing[:4], "of", n_files))
    for p in provs:
        EventManager._provider_guard.remove(p)      # pylint: disable=protected-access
    cs2.done()
    return probs, {"files": n_files, "lines": yl.lines, "yields": yl.yields, "flavour": "".join(flav)}
