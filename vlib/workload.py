"""User-operation generators (families ONE, DISJ, CONF, hazard-seeking), schedules, dict tree model.

A *case* is a JSON-able dict: {family, flavour, shape, base: [ops], sched: [entries]} where a schedule entry is
  ["U", op]   user operation     op = {side, op, path, [to], [data], obj}
  ["E0"] ["E1"] ["S"]            one engine step
  ["Q"]                          drive to quiescence (window boundary)
  ["R", mode]                    restart (intact | nocursor | badcursor)
  ["T", dt]                      advance the virtual clock
Contents are unique per write so a byte string identifies the write that produced it.
"""
import hashlib
import json

SHAPES = ("burst", "lockstep", "starveE0", "starveE1", "starveS", "uniform", "intake", "seq", "droughtE0", "droughtE1")
# droughtE<k>: like starveE<k> but with long stretches (6-14 steps) in which side k's events are not taken in while the
# sync loop keeps running - retry limits and punt counters are reached before the other side's news arrives
STEPS = ("E0", "E1", "S")


# ----------------------------------------------------------------------------------------------------------------
# contents and names
class Names:
    """Fresh, globally unique names (unique also modulo case) in several shapes."""
    SHAPES = ("{p}{n}", "{p}{n}.txt", "{p} {n}.dat", "{p}{n}.tar.gz", "{P}x{n}", "{p}é{n}", "{p}-{n}.x.y")

    def __init__(self, rng):
        self.rng = rng
        self.n = 0

    def fresh(self, prefix="n"):
        self.n += 1
        shape = self.rng.choice(self.SHAPES)
        return shape.format(p=prefix, P=prefix.upper(), n=self.n)


class Contents:
    SIZES = (12, 12, 12, 700, 1500, 3000, 3000, 70000)

    def __init__(self, rng):
        self.rng = rng
        self.n = 0

    def fresh(self, side, size=None):
        self.n += 1
        if size is None:
            size = self.rng.choice(self.SIZES)
        head = b"%s%d:" % (b"LR"[side:side + 1], self.n)
        if size <= len(head):
            return head
        pad = (b"%d." % self.n) * (size // 2)
        return (head + pad)[:size]


# ----------------------------------------------------------------------------------------------------------------
# dict model of one tree
class TreeModel:
    def __init__(self, tree=None):
        self.t = dict(tree or {})       # rel path -> ('dir',) | ('file', bytes)
        self.obj = {}                   # rel path -> object id (generator identity)
        self.nobj = 0

    def copy(self):
        m = TreeModel(self.t)
        m.obj = dict(self.obj)
        m.nobj = self.nobj
        return m

    def new_obj(self, path):
        self.nobj += 1
        self.obj[path] = self.nobj
        return self.nobj

    def parent(self, path):
        return path.rsplit("/", 1)[0] if "/" in path else ""

    def parent_ok(self, path):
        par = self.parent(path)
        return par == "" or self.t.get(par) == ("dir",)

    def kids(self, path):
        pre = path + "/"
        return [k for k in self.t if k.startswith(pre)]

    def dirs(self):
        return [k for k, v in self.t.items() if v == ("dir",)]

    def files(self):
        return [k for k, v in self.t.items() if v[0] == "file"]

    def apply(self, op):
        """Applies a user op; returns False if it is invalid in the model (the provider would reject it)."""
        k, p = op["op"], op["path"]
        t = self.t
        if k == "create":
            if p in t or not self.parent_ok(p):
                return False
            t[p] = ("file", op["data"])
        elif k == "mkdir":
            if p in t or not self.parent_ok(p):
                return False
            t[p] = ("dir",)
        elif k == "write":
            if t.get(p, ("x",))[0] != "file":
                return False
            t[p] = ("file", op["data"])
        elif k == "delete":
            if t.get(p, ("x",))[0] != "file":
                return False
            del t[p]
            self.obj.pop(p, None)
        elif k == "rmdir":
            if t.get(p) != ("dir",) or self.kids(p):
                return False
            del t[p]
            self.obj.pop(p, None)
        elif k in ("rename", "rendir"):
            q = op["to"]
            if p not in t or q in t or not self.parent_ok(q) or (q + "/").startswith(p + "/"):
                return False
            if (k == "rename") != (t[p][0] == "file"):
                return False
            moved = [p] + self.kids(p)
            for old in moved:
                new = q + old[len(p):]
                t[new] = t.pop(old)
                if old in self.obj:
                    self.obj[new] = self.obj.pop(old)
        else:
            raise ValueError(k)
        return True


def top(path):
    return path.split("/", 1)[0]


# ----------------------------------------------------------------------------------------------------------------
# generators
class Gen:
    def __init__(self, rng):
        self.rng = rng
        self.names = Names(rng)
        self.contents = Contents(rng)

    # -- base tree: list of ops (all on one side) building a small nested tree
    def base_tree(self, side, n=None, prefix="b"):
        rng = self.rng
        n = rng.choice((0, 2, 4, 6, 8)) if n is None else n
        m = TreeModel()
        ops = []
        for _ in range(n):
            dirs = [""] + [d for d in m.dirs() if d.count("/") < 2]
            par = rng.choice(dirs)
            name = self.names.fresh(prefix)
            path = (par + "/" + name) if par else name
            if rng.random() < 0.4:
                op = {"side": side, "op": "mkdir", "path": path}
            else:
                op = {"side": side, "op": "create", "path": path, "data": self.contents.fresh(side)}
            assert m.apply(op)
            op["obj"] = m.new_obj(path)
            ops.append(op)
        return ops, m

    def gen_op(self, m, side, owned=None, allow=None, renamed_names=None, deleted_names=None, reuse=None):
        """One valid user op for `side` on model m.  owned: predicate(path)->bool restricting the touched objects.
        Target names of create/mkdir/rename are fresh (so HF/HD are false by construction, rendir isolated by caller)."""
        rng = self.rng
        owned = owned or (lambda p: True)
        files = [f for f in m.files() if owned(f)]
        dirs = [d for d in m.dirs() if owned(d)]
        norename = getattr(self, "_norename", set())
        if side in getattr(self, "_pathid_sides", ()):
            # path-id side: an object already created/written/renamed in this window is not renamed or deleted (HC, K15)
            norename = norename | getattr(self, "_chain", set())
        renamable = [f for f in files if f not in norename]
        chain = getattr(self, "_chain", set()) if side in getattr(self, "_pathid_sides", ()) else set()
        deletable = [f for f in files if f not in chain]
        parents = [""] + [d for d in dirs if d.count("/") < 3]
        kinds = []
        w = allow or {"create": 4, "write": 3, "rename": 3, "delete": 2, "mkdir": 2, "rmdir": 1, "rendir": 1,
                      "recreate": 0.5}
        kinds += ["create"] * int(w.get("create", 0) * 2) + ["mkdir"] * int(w.get("mkdir", 0) * 2)
        if files:
            kinds += ["write"] * int(w.get("write", 0) * 2)
        if deletable:
            kinds += ["delete"] * int(w.get("delete", 0) * 2)
        if renamable:
            kinds += ["rename"] * int(w.get("rename", 0) * 2)
        empties = [d for d in dirs if not m.kids(d) and d not in chain]
        if empties:
            kinds += ["rmdir"] * int(w.get("rmdir", 0) * 2)
        if dirs:
            kinds += ["rendir"] * int(w.get("rendir", 0) * 2)
        if deleted_names and w.get("recreate", 0):
            kinds += ["recreate"]
        kind = rng.choice(kinds)
        pfx = "lr"[side]
        if kind in ("create", "mkdir"):
            par = rng.choice(parents)
            name = self.names.fresh(pfx)
            path = (par + "/" + name) if par else name
            op = {"side": side, "op": kind, "path": path}
            if kind == "create":
                op["data"] = self.contents.fresh(side)
        elif kind == "recreate":
            cands = [p for p in deleted_names if m.parent_ok(p) and p not in m.t and owned(p)]
            if not cands:
                return self.gen_op(m, side, owned, dict(w, recreate=0), renamed_names, None)
            path = rng.choice(cands)
            # a re-occupied name is never a rename source later (that would be hazard HF)
            self._norename = norename | {path}
            op = {"side": side, "op": "create", "path": path, "data": self.contents.fresh(side)}
        elif kind == "write":
            op = {"side": side, "op": "write", "path": rng.choice(files), "data": self.contents.fresh(side)}
        elif kind == "delete":
            op = {"side": side, "op": "delete", "path": rng.choice(deletable)}
        elif kind == "rmdir":
            op = {"side": side, "op": "rmdir", "path": rng.choice(empties)}
        elif kind == "rename":
            src = rng.choice(renamable)
            if rng.random() < 0.5:
                par = m.parent(src)
            else:
                par = rng.choice(parents)
            name = self.names.fresh(pfx)
            to = (par + "/" + name) if par else name
            if reuse:
                cands = [q for q in reuse if q not in m.t and m.parent_ok(q) and owned(q)]
                if cands and rng.random() < 0.6:
                    to = rng.choice(cands)
            op = {"side": side, "op": "rename", "path": src, "to": to}
        else:   # rendir
            src = rng.choice(dirs)
            pars = [p for p in parents if not (p + "/").startswith(src + "/")]
            par = m.parent(src) if rng.random() < 0.6 else rng.choice(pars)
            name = self.names.fresh(pfx)
            to = (par + "/" + name) if par else name
            if reuse:
                cands = [q for q in reuse if q not in m.t and m.parent_ok(q) and owned(q)
                         and not (q + "/").startswith(src + "/")]
                if cands and rng.random() < 0.5:
                    to = rng.choice(cands)
            op = {"side": side, "op": "rendir", "path": src, "to": to}
        if not hasattr(self, "_chain"):
            self._chain = set()
        if op["op"] in ("create", "write", "mkdir"):
            self._chain.add(op["path"])         # touched in this window: not renamed/deleted before the next quiescent point
        elif op["op"] == "rename":
            self._chain.add(op["to"])
        # object identity for the hazard predicates
        if op["op"] in ("create", "mkdir"):
            ok = m.apply(op)
            assert ok, op
            op["obj"] = m.new_obj(op["path"])
        else:
            op["obj"] = m.obj.get(op["path"])
            if op["op"] == "delete" and deleted_names is not None and (renamed_names is None or op["path"] not in renamed_names):
                deleted_names.add(op["path"])
            ok = m.apply(op)
            assert ok, op
            if reuse is not None and op["op"] in ("delete", "rmdir", "rename", "rendir"):
                reuse.add(op["path"])
            if renamed_names is not None and "to" in op:
                renamed_names.add(op["path"])
                renamed_names.add(op["to"])
        return op

    # -- engine steps to insert after a user op, by schedule shape
    def gap(self, shape):
        rng = self.rng
        if shape == "burst":
            return []
        if shape == "lockstep":
            return [[rng.choice(STEPS)]]
        if shape == "seq":
            return [["Q"]]
        if shape == "intake":
            return [["E0"], ["E1"]]
        if shape.startswith("drought"):
            allowed = [s for s in STEPS if s != shape[7:]]
            return [[rng.choice(allowed + ["S"])] for _ in range(rng.randrange(6, 15))]
        if shape.startswith("starve"):
            allowed = [s for s in STEPS if s != shape[6:]]
            return [[rng.choice(allowed)] for _ in range(rng.randrange(0, 4))]
        return [[rng.choice(STEPS)] for _ in range(rng.randrange(0, 5))]

    # -- families --------------------------------------------------------------------------------------------
    def case_one(self, flavour, shape, side, nops, base_side=None, base_n=None, weights=None, seek=False):
        """ONE(side): every user op on one side; from a previously synchronised base tree."""
        rng = self.rng
        base_side = side if base_side is None else base_side
        base, m = self.base_tree(base_side, base_n)
        self._norename = set()
        self._chain = set()
        self._pathid_sides = set() if seek else {i for i in (0, 1) if flavour[i] == "p"}
        sched = []
        renamed, deleted = set(), set()
        reuse = set() if seek else None
        if seek:
            weights = {"create": 3, "write": 2, "rename": 4, "delete": 2, "mkdir": 3, "rmdir": 1, "rendir": 4, "recreate": 2}
        for _ in range(nops):
            op = self.gen_op(m, side, None, weights, None if seek else renamed, deleted, reuse)
            if op["op"] == "rendir" and not seek:
                sched.append(["Q"])
                sched.append(["U", op])
                sched.append(["Q"])
                self._chain = set()
            else:
                sched.append(["U", op])
                gap = self.gap(shape)
                sched.extend(gap)
                if ["Q"] in gap:
                    self._chain = set()
        return {"family": ("SONE%d" if seek else "ONE%d") % side, "flavour": flavour, "shape": shape, "base": base,
                "base_side": base_side, "sched": sched, "expect": m.t}

    def case_reuse(self, flavour, shape, side, nops, base_side=None, two_sided=False):
        """REUSE(side): one-sided history in which names vacated by a delete / rmdir / rename in an *earlier* window
        (i.e. the engine has been quiet since) are taken again - by a create, a mkdir, a file rename or a folder rename,
        of either type.  Exercises what the engine remembers about paths across quiet points (written-off entries)."""
        rng = self.rng
        base_side = side if base_side is None else base_side
        base, m = self.base_tree(base_side, rng.choice((4, 6, 8)))
        sched = []
        vacated, pending, chain = set(), set(), set()
        reused = 0
        pfx = "lr"[side]
        # two_sided: both sides work, each on the top-level entries it owns (as in DISJ) and re-using only names below them
        owner = {}
        if two_sided:
            for q in m.t:
                owner.setdefault(top(q), rng.randrange(2))
        side0 = side

        def mine(q):
            return not two_sided or owner.get(top(q), side) == side

        def quiet():
            if not sched or sched[-1] != ["Q"]:
                sched.append(["Q"])
            vacated.update(pending)
            pending.clear()
            chain.clear()

        def fresh_path():
            par = rng.choice([""] + [d for d in m.dirs() if d.count("/") < 3 and mine(d)])
            name = self.names.fresh(pfx)
            return (par + "/" + name) if par else name

        for _ in range(nops):
            if two_sided:
                side = rng.randrange(2)
                pfx = "lr"[side]
            files = [f for f in m.files() if f not in chain and mine(f)]
            dirs = [d for d in m.dirs() if d not in chain and mine(d)]
            want_reuse = rng.random() < 0.6
            if want_reuse and not [q for q in vacated if q not in m.t and m.parent_ok(q) and mine(q)] and pending:
                quiet()
            cands = sorted(q for q in vacated if q not in m.t and m.parent_ok(q) and mine(q))
            op = None
            if want_reuse and cands:
                q = rng.choice(cands)
                kinds = ["create", "mkdir"] + (["rename"] * 2 if files else []) + \
                        (["rendir"] * 2 if [d for d in dirs if not (q + "/").startswith(d + "/")] else [])
                k = rng.choice(kinds)
                if k == "create":
                    op = {"side": side, "op": "create", "path": q, "data": self.contents.fresh(side)}
                elif k == "mkdir":
                    op = {"side": side, "op": "mkdir", "path": q}
                elif k == "rename":
                    op = {"side": side, "op": "rename", "path": rng.choice(files), "to": q}
                else:
                    op = {"side": side, "op": "rendir", "to": q,
                          "path": rng.choice([d for d in dirs if not (q + "/").startswith(d + "/")])}
                reused += 1
            else:
                kinds = ["create"] * 3 + ["mkdir"] * 2
                myfiles = [f for f in m.files() if mine(f)]
                if myfiles:
                    kinds += ["write"] * 2
                if files:
                    kinds += ["delete"] * 4 + ["rename"] * 3
                empties = [d for d in dirs if not m.kids(d)]
                if empties:
                    kinds += ["rmdir"] * 3
                if dirs:
                    kinds += ["rendir"] * 2
                k = rng.choice(kinds)
                if k == "create":
                    op = {"side": side, "op": "create", "path": fresh_path(), "data": self.contents.fresh(side)}
                elif k == "mkdir":
                    op = {"side": side, "op": "mkdir", "path": fresh_path()}
                elif k == "write":
                    op = {"side": side, "op": "write", "path": rng.choice(myfiles), "data": self.contents.fresh(side)}
                elif k == "delete":
                    op = {"side": side, "op": "delete", "path": rng.choice(files)}
                elif k == "rmdir":
                    op = {"side": side, "op": "rmdir", "path": rng.choice(empties)}
                elif k == "rename":
                    src = rng.choice(files)
                    par = m.parent(src)
                    name = self.names.fresh(pfx)
                    op = {"side": side, "op": "rename", "path": src, "to": (par + "/" + name) if par else name}
                else:
                    src = rng.choice(dirs)
                    par = m.parent(src)
                    name = self.names.fresh(pfx)
                    op = {"side": side, "op": "rendir", "path": src, "to": (par + "/" + name) if par else name}
            if op["op"] == "rendir":
                quiet()
            if op["op"] in ("create", "mkdir"):
                assert m.apply(op), op
                op["obj"] = m.new_obj(op["path"])
            else:
                op["obj"] = m.obj.get(op["path"])
                assert m.apply(op), op
            sched.append(["U", op])
            if two_sided:
                owner.setdefault(top(op.get("to", op["path"])), side)
            vacated.discard(op.get("to", op["path"]))       # taken again: vacated anew only by a later op + quiet point
            if op["op"] in ("delete", "rmdir", "rename", "rendir"):
                pending.add(op["path"])
            if op["op"] in ("create", "write", "mkdir"):
                chain.add(op["path"])
            elif "to" in op:
                chain.add(op["to"])
            if op["op"] == "rendir":
                quiet()
            else:
                gap = self.gap(shape)
                sched.extend(gap)
                if ["Q"] in gap:
                    quiet()
        return {"family": "REUSE2" if two_sided else "REUSE%d" % side0, "flavour": flavour, "shape": shape, "base": base,
                "base_side": base_side, "sched": sched, "expect": m.t, "reused": reused}

    def case_renclash(self, flavour, shape, nops):
        """RENCLASH: one side renames a synchronised file to a name that the other side gives to a brand-new file in the same
        window.  HF by the letter (the rename's target is touched by the other side); no exact expectation (which file keeps
        the name is the engine's choice): the families' convergence / no-loss oracles apply."""
        rng = self.rng
        base_side = rng.randrange(2)
        base, m = self.base_tree(base_side, 0)
        files = []
        par = ""
        if rng.random() < 0.4:
            par = self.names.fresh("b")
            op = {"side": base_side, "op": "mkdir", "path": par}
            assert m.apply(op)
            op["obj"] = m.new_obj(par)
            base.append(op)
        for _ in range(rng.randrange(2, 5)):
            nm = self.names.fresh("b")
            path = (par + "/" + nm) if par and rng.random() < 0.6 else nm
            op = {"side": base_side, "op": "create", "path": path, "data": self.contents.fresh(base_side)}
            assert m.apply(op)
            op["obj"] = m.new_obj(path)
            base.append(op)
            files.append(path)
        a = rng.randrange(2)
        b = 1 - a
        src = rng.choice(files)
        d = m.parent(src)
        nm = self.names.fresh("c")
        target = (d + "/" + nm) if d else nm
        ops_a = [{"side": a, "op": "rename", "path": src, "to": target, "obj": m.obj.get(src)}]
        ops_b = [{"side": b, "op": "create", "path": target, "data": self.contents.fresh(b), "obj": None}]
        for _ in range(max(0, nops - 2)):
            s_ = rng.randrange(2)
            nm2 = self.names.fresh("lr"[s_])
            (ops_a if s_ == a else ops_b).append({"side": s_, "op": "create", "path": nm2, "data": self.contents.fresh(s_), "obj": None})
        seq = []
        x, y = list(ops_a), list(ops_b)
        while x or y:
            srcl = x if (x and (not y or rng.random() < 0.5)) else y
            seq.append(srcl.pop(0))
        sched = []
        for op in seq:
            sched.append(["U", op])
            sched.extend(g for g in self.gap(shape) if g != ["Q"])
        return {"family": "RENCLASH", "flavour": flavour, "shape": shape, "base": base, "base_side": base_side, "sched": sched,
                "expect": None}

    def case_remk(self, flavour, shape, side, nops):
        """REMK(side): folders are removed and made again under the same name within one window (a new object at an old path),
        some with new content inside, among ordinary operations.  One-sided; exact mirror expected."""
        rng = self.rng
        base, m = self.base_tree(side, 0)

        def add(op):
            assert m.apply(op), op
            op["obj"] = m.new_obj(op["path"])
            base.append(op)
        dirs = []
        for _ in range(rng.randrange(2, 4)):
            d = self.names.fresh("b")
            add({"side": side, "op": "mkdir", "path": d})
            dirs.append(d)
            if rng.random() < 0.5:
                add({"side": side, "op": "create", "path": d + "/" + self.names.fresh("b"), "data": self.contents.fresh(side)})
        add({"side": side, "op": "create", "path": self.names.fresh("b"), "data": self.contents.fresh(side)})
        sched = []
        pfx = "lr"[side]

        def emit(op):
            if op["op"] in ("create", "mkdir"):
                assert m.apply(op), op
                op["obj"] = m.new_obj(op["path"])
            else:
                op["obj"] = m.obj.get(op["path"])
                assert m.apply(op), op
            sched.append(["U", op])
            sched.extend(g for g in self.gap(shape) if g != ["Q"])
        for _ in range(nops):
            r = rng.random()
            live = [d for d in dirs if d in m.t]
            if r < 0.5 and live:
                d = rng.choice(live)
                for k in sorted(m.kids(d), reverse=True):
                    emit({"side": side, "op": "delete" if m.t[k][0] == "file" else "rmdir", "path": k})
                emit({"side": side, "op": "rmdir", "path": d})
                emit({"side": side, "op": "mkdir", "path": d})
                if rng.random() < 0.5:
                    emit({"side": side, "op": "create", "path": d + "/" + self.names.fresh(pfx), "data": self.contents.fresh(side)})
            elif r < 0.75:
                par = rng.choice([""] + live)
                nm = self.names.fresh(pfx)
                emit({"side": side, "op": "create", "path": (par + "/" + nm) if par else nm, "data": self.contents.fresh(side)})
            else:
                files = m.files()
                if files:
                    emit({"side": side, "op": "write", "path": rng.choice(files), "data": self.contents.fresh(side)})
        return {"family": "REMK%d" % side, "flavour": flavour, "shape": shape, "base": base, "base_side": side, "sched": sched,
                "expect": m.t}

    def case_deepmk(self, flavour, shape, nops):
        """DEEPMK: one side creates a folder two or more levels below a folder D (under an existing, unchanged sub-folder) and
        renames D in the same window; the other side works on entries of its own.  HD by the letter.  Measured on the pinned
        tree: tolerated when the new folder's direct parent is an existing unchanged folder (the engine's parent-before-child
        rule walks up to the renamed ancestor) - unlike a mkdir directly inside the renamed folder, which fails."""
        rng = self.rng
        base_side = rng.randrange(2)
        base, m = self.base_tree(base_side, 0)

        def add(op):
            assert m.apply(op), op
            op["obj"] = m.new_obj(op["path"])
            base.append(op)
        d = self.names.fresh("b")
        sub = d + "/" + self.names.fresh("b")
        add({"side": base_side, "op": "mkdir", "path": d})
        add({"side": base_side, "op": "create", "path": d + "/" + self.names.fresh("b"), "data": self.contents.fresh(base_side)})
        add({"side": base_side, "op": "mkdir", "path": sub})
        add({"side": base_side, "op": "create", "path": sub + "/" + self.names.fresh("b"), "data": self.contents.fresh(base_side)})
        deep = sub
        if rng.random() < 0.4:
            deep = sub + "/" + self.names.fresh("b")
            add({"side": base_side, "op": "mkdir", "path": deep})
        others = []
        for _ in range(rng.randrange(1, 4)):
            nm = self.names.fresh("b")
            add({"side": base_side, "op": "create", "path": nm, "data": self.contents.fresh(base_side)})
            others.append(nm)
        x = rng.randrange(2)
        if "p" in flavour and flavour[x] != "p":
            x = 1 - x                   # the folder owner acts on a path-id side (see docstring / DESIGN 8.3)
        y = 1 - x
        px = "lr"[x]
        newdir = deep + "/" + self.names.fresh(px)
        mine = [{"side": x, "op": "mkdir", "path": newdir}]
        if rng.random() < 0.5:
            mine.append({"side": x, "op": "create", "path": newdir + "/" + self.names.fresh(px), "data": self.contents.fresh(x)})
        e = self.names.fresh(px)
        mine.append({"side": x, "op": "rendir", "path": d, "to": e})
        theirs = []
        own = []
        for _ in range(max(0, nops - len(mine))):
            r = rng.random()
            if r < 0.3 and others:
                o = others.pop()
                theirs.append({"side": y, "op": rng.choice(("delete", "write")), "path": o})
                if theirs[-1]["op"] == "write":
                    theirs[-1]["data"] = self.contents.fresh(y)
                    others.append(o)
            elif r < 0.5 and own:
                theirs.append({"side": y, "op": "write", "path": rng.choice(own), "data": self.contents.fresh(y)})
            else:
                nm = self.names.fresh("lr"[y])
                own.append(nm)
                theirs.append({"side": y, "op": "create", "path": nm, "data": self.contents.fresh(y)})
        seq = []
        a, b = list(mine), list(theirs)
        while a or b:
            src = a if (a and (not b or rng.random() < 0.5)) else b
            seq.append(src.pop(0))
        sched = []
        for op in seq:
            if op["op"] in ("create", "mkdir"):
                assert m.apply(op), op
                op["obj"] = m.new_obj(op["path"])
            else:
                op["obj"] = m.obj.get(op["path"])
                assert m.apply(op), op
            sched.append(["U", op])
            sched.extend(g for g in self.gap(shape) if g != ["Q"])
        return {"family": "DEEPMK", "flavour": flavour, "shape": shape, "base": base, "base_side": base_side, "sched": sched,
                "expect": m.t}

    def case_swap(self, flavour, shape, nops):
        """SWAP: one side exchanges the names of two (or rotates three) synchronised files through a temporary name inside
        one window - rename a->t, b->a, t->b - while the other side creates and edits files of its own.  Every single
        rename is hazard HF by the letter (its source or target is touched by another op of the window), but the pinned
        engine handles this particular shape (measured: see DESIGN 8.3), so it is carved out as a family of its own."""
        rng = self.rng
        base_side = rng.randrange(2)
        base, m = self.base_tree(base_side, 0)
        # base: 3-5 files at the top level or in one folder
        folder = None
        if rng.random() < 0.5:
            folder = self.names.fresh("b")
            op = {"side": base_side, "op": "mkdir", "path": folder}
            assert m.apply(op)
            op["obj"] = m.new_obj(folder)
            base.append(op)
        files = []
        for _ in range(rng.randrange(3, 6)):
            name = self.names.fresh("b")
            path = (folder + "/" + name) if folder and rng.random() < 0.7 else name
            op = {"side": base_side, "op": "create", "path": path, "data": self.contents.fresh(base_side)}
            assert m.apply(op)
            op["obj"] = m.new_obj(path)
            base.append(op)
            files.append(path)
        x = rng.randrange(2)
        y = 1 - x
        k = rng.choice((2, 2, 3))
        ring = rng.sample(files, k)
        par = m.parent(ring[0])
        tname = self.names.fresh("lr"[x])
        t = (par + "/" + tname) if par else tname
        swap_ops = [{"side": x, "op": "rename", "path": ring[0], "to": t}]
        for i in range(1, k):
            swap_ops.append({"side": x, "op": "rename", "path": ring[i], "to": ring[i - 1]})
        swap_ops.append({"side": x, "op": "rename", "path": t, "to": ring[k - 1]})
        other = []
        own = []
        for _ in range(max(0, nops - len(swap_ops))):
            if own and rng.random() < 0.4:
                other.append({"side": y, "op": "write", "path": rng.choice(own), "data": self.contents.fresh(y)})
            else:
                name = self.names.fresh("lr"[y])
                own.append(name)
                other.append({"side": y, "op": "create", "path": name, "data": self.contents.fresh(y)})
        # interleave keeping each side's order
        seq = []
        a, b = list(swap_ops), list(other)
        while a or b:
            src = a if (a and (not b or rng.random() < 0.5)) else b
            seq.append(src.pop(0))
        sched = []
        for op in seq:
            if op["op"] == "create":
                assert m.apply(op), op
                op["obj"] = m.new_obj(op["path"])
            else:
                op["obj"] = m.obj.get(op["path"])
                assert m.apply(op), op
            sched.append(["U", op])
            sched.extend(g for g in self.gap(shape) if g != ["Q"])      # the whole exchange stays inside one window
        return {"family": "SWAP", "flavour": flavour, "shape": shape, "base": base, "base_side": base_side, "sched": sched,
                "expect": m.t, "ring": k}

    def case_disj(self, flavour, shape, nops, weights=None, seek=False):
        """DISJ: both sides change, but each side only touches objects it owns (ownership by top-level entry)."""
        rng = self.rng
        base_side = rng.randrange(2)
        base, m = self.base_tree(base_side, rng.choice((4, 6, 8, 10)))
        self._norename = set()
        self._chain = set()
        self._pathid_sides = set() if seek else {i for i in (0, 1) if flavour[i] == "p"}
        owner = {}
        for p in m.t:
            owner.setdefault(top(p), rng.randrange(2))
        sched = []
        renamed, deleted = set(), set()
        reuse = set() if seek else None
        if seek:
            weights = {"create": 3, "write": 2, "rename": 4, "delete": 2, "mkdir": 3, "rmdir": 1, "rendir": 4}
        for _ in range(nops):
            side = rng.randrange(2)

            def owned(p, side=side):
                return owner.get(top(p), side) == side
            op = self.gen_op(m, side, owned, weights, None if seek else renamed, None, reuse)
            owner.setdefault(top(op["path"]), side)
            if "to" in op:
                # moving to the top level creates a new top-level name owned by the mover
                owner.setdefault(top(op["to"]), side)
            if op["op"] == "rendir" and not seek:
                sched.append(["Q"])
                sched.append(["U", op])
                sched.append(["Q"])
                self._chain = set()
            else:
                sched.append(["U", op])
                gap = self.gap(shape)
                sched.extend(gap)
                if ["Q"] in gap:
                    self._chain = set()
        return {"family": "SDISJ" if seek else "DISJ", "flavour": flavour, "shape": shape, "base": base,
                "base_side": base_side, "sched": sched, "expect": m.t}

    def case_conf(self, flavour, shape, nops, npaths=3, clash=False):
        """CONF: both sides create/write/delete the *same* small set of paths (no renames).  A 'clash' path is a file
        for one side's user and a folder for the other's (file-vs-folder name clash); on any one side a path keeps one
        type for the whole case (a same-side type change under one path is hazard HT, finding K13).  Clash paths are only
        generated with clash=True (hazard HX, finding K14) -- the main CONF family has none."""
        rng = self.rng
        base_side = rng.randrange(2)
        paths = [self.names.fresh("c") for _ in range(npaths)]
        if rng.random() < 0.5:
            d = self.names.fresh("cd")
            base = [{"side": base_side, "op": "mkdir", "path": d, "obj": 0}]
            paths = [d + "/" + p if rng.random() < 0.5 else p for p in paths]
        else:
            base = []
        dirside = {}                    # clash path -> side whose user treats it as a folder
        for p in paths:
            if clash and rng.random() < 0.3:
                dirside[p] = rng.randrange(2)
            elif rng.random() < 0.6:
                base.append({"side": base_side, "op": "create", "path": p, "data": self.contents.fresh(base_side),
                             "obj": 0})
        sched = []
        fresh = set()                   # (side, path) created by that side's user in the current window
        for _ in range(nops):
            side = rng.randrange(2)
            p = rng.choice(paths)
            r = rng.random()
            if not clash and r >= 0.8 and (side, p) in fresh:
                r = 0.5                 # no delete of an object created in this window (hazard HQ, finding K19): edit it
            if not clash and flavour[side] == "p" and not (0.4 <= r < 0.8):
                r = 0.5                 # path-id side: contested paths are only edited (hazard HP, finding K20)
            if dirside.get(p) == side:
                op = {"side": side, "op": "mkdir" if r < 0.7 else "rmdir", "path": p}
            elif r < 0.4:
                op = {"side": side, "op": "create", "path": p, "data": self.contents.fresh(side)}
            elif r < 0.8:
                op = {"side": side, "op": "write", "path": p, "data": self.contents.fresh(side)}
            else:
                op = {"side": side, "op": "delete", "path": p}
            op["obj"] = 0
            if op["op"] == "create":
                fresh.add((side, p))
            sched.append(["U", op])
            gap = self.gap(shape)
            sched.extend(gap)
            if ["Q"] in gap:
                fresh.clear()
        return {"family": "CLASH" if clash else "CONF", "flavour": flavour, "shape": shape, "base": base,
                "base_side": base_side, "sched": sched, "expect": None}

    def case_seek(self, flavour, shape, nops, two_sided):
        """Hazard-seeking: 3-name pool so names collide, renames of files and folders at any time, random Q points.
        Validity is judged on one shared model (as if sync were instantaneous); the provider may still reject an op."""
        rng = self.rng
        pool = ["a", "b", "c"]
        dpool = ["D", "E"]
        m = TreeModel()
        sched = []
        nobj = [0]

        def allpaths():
            out = list(pool) + list(dpool)
            for d in m.dirs():
                if d.count("/") < 2:
                    out += [d + "/" + x for x in pool + ["F"]]
            return out
        base = []
        for _ in range(rng.randrange(0, 3)):
            p = rng.choice(allpaths())
            op = {"side": 0, "op": rng.choice(("create", "mkdir")), "path": p}
            if op["op"] == "create":
                op["data"] = self.contents.fresh(0, 12)
            if m.copy().apply(op):
                m.apply(op)
                nobj[0] += 1
                m.obj[p] = "b%d" % nobj[0]
                op["obj"] = m.obj[p]
                base.append(op)
        kinds = ("create", "create", "write", "rename", "rename", "delete", "mkdir", "mkdir", "rmdir", "rendir", "rendir",
                 "rendir")
        for _ in range(nops):
            side = rng.randrange(2) if two_sided else 0
            for _try in range(30):
                k = rng.choice(kinds)
                cands = allpaths()
                p = rng.choice(cands)
                op = {"side": side, "op": k, "path": p}
                if k in ("create", "write"):
                    op["data"] = self.contents.fresh(side, 12)
                if k in ("rename", "rendir"):
                    op["to"] = rng.choice(cands)
                if m.copy().apply(op):
                    op["obj"] = m.obj.get(p) or 0
                    m.apply(op)
                    if k in ("create", "mkdir"):
                        nobj[0] += 1
                        m.obj[p] = "%d.%d" % (side, nobj[0])
                        op["obj"] = m.obj[p]
                    sched.append(["U", op])
                    break
            if rng.random() < 0.2:
                sched.append(["Q"])
            else:
                sched.extend(self.gap(shape))
        return {"family": "SEEK2" if two_sided else "SEEK1", "flavour": flavour, "shape": shape, "base": base,
                "base_side": 0, "sched": sched, "expect": None}


# ----------------------------------------------------------------------------------------------------------------
def ops_of(case):
    return [e[1] for e in case["sched"] if e[0] == "U"]


def signature(case):
    """Distinctness key of a case: family, flavour, shape and the ordered (side, kind, depth) of its user ops and
    the positions of steps between them."""
    parts = [case["family"], case["flavour"], case["shape"]]
    for e in case["sched"]:
        if e[0] == "U":
            o = e[1]
            parts.append("%d%s%d" % (o["side"], o["op"], o["path"].count("/")))
        else:
            parts.append(e[0])
    return hashlib.blake2b("|".join(parts).encode(), digest_size=8).hexdigest()


def jsonable(x):
    """bytes -> {'b': latin1} so cases/replays are JSON files."""
    if isinstance(x, bytes):
        if len(x) > 200:
            return {"b": x[:60].decode("latin1"), "len": len(x), "h": hashlib.md5(x).hexdigest()}
        return {"b": x.decode("latin1")}
    if isinstance(x, dict):
        return {str(k): jsonable(v) for k, v in x.items()}
    if isinstance(x, (list, tuple)):
        return [jsonable(v) for v in x]
    if isinstance(x, (set, frozenset)):
        return sorted(jsonable(v) for v in x)
    if isinstance(x, (str, int, float, bool)) or x is None:
        return x
    return repr(x)


def brief_case(case, maxlen=40):
    """Compact, human-readable form of a case for evidence samples."""
    out = []
    for e in case["sched"][:maxlen]:
        if e[0] == "U":
            o = e[1]
            s = "%s:%s %s" % ("LR"[o["side"]], o["op"], o["path"])
            if "to" in o:
                s += " -> " + o["to"]
            if "data" in o:
                s += " (%dB)" % len(o["data"])
            out.append(s)
        elif e[0] in ("R", "T"):
            out.append("%s(%s)" % (e[0], e[1]))
        else:
            out.append(e[0])
    return {"family": case["family"], "flavour": case["flavour"], "shape": case["shape"],
            "base": ["%s:%s %s" % ("LR"[o["side"]], o["op"], o["path"]) for o in case["base"]],
            "sched": out}


def dumps(x):
    return json.dumps(jsonable(x), indent=1, sort_keys=True)
