"""evidence/<ID>.json writer; validated against /root/.vp/EVIDENCE.schema.json when jsonschema is importable,
otherwise by a small structural check of the keys the schema requires."""
import json
import os

VERIF = os.path.dirname(os.path.dirname(os.path.abspath(__file__)))
SCHEMA = "/root/.vp/EVIDENCE.schema.json"


def _fallback_check(ev):
    for k in ("property_id", "tier", "seed", "level", "coverage", "wall_s"):
        assert k in ev, "evidence misses %s" % k
    assert ev["tier"] in ("quick", "thorough")
    assert isinstance(ev["seed"], int)
    cov = ev["coverage"]
    if ev["level"] in ("exploration", "fault_enumeration"):
        assert isinstance(cov.get("evaluations"), int) and cov["evaluations"] >= 1
        assert isinstance(cov.get("distinct_nontrivial"), int) and cov["distinct_nontrivial"] >= 2
        assert isinstance(cov.get("rule"), str)
        assert isinstance(cov.get("samples"), list) and len(cov["samples"]) >= 1


def write(prop, ev):
    path = os.path.join(VERIF, "evidence", "%s.json" % prop)
    if os.path.realpath(os.environ.get("VERIF_REPO", "/repo")) != "/repo":
        # a run against a scratch source tree (mutation experiment) never overwrites the evidence of /repo
        path = os.path.join(VERIF, "evidence", "_scratch", "%s.json" % prop)
    os.makedirs(os.path.dirname(path), exist_ok=True)
    problems = None
    try:
        import jsonschema               # pylint: disable=import-outside-toplevel
        with open(SCHEMA) as f:
            jsonschema.validate(ev, json.load(f))
    except ImportError:
        try:
            _fallback_check(ev)
        except AssertionError as e:
            problems = str(e)
    except Exception as e:              # noqa  schema violation
        problems = str(e)[:300]
    tmp = path + ".tmp"
    with open(tmp, "w") as f:
        json.dump(ev, f, indent=1, sort_keys=True)
    os.replace(tmp, path)
    return path, problems
