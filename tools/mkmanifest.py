#!/venv/bin/python -B
"""Regenerates MANIFEST.json from the META of every props/cNN.py (so the manifest cannot drift from the checks)."""
import importlib
import json
import os
import sys

VERIF = os.path.dirname(os.path.dirname(os.path.abspath(__file__)))
sys.path.insert(0, VERIF)
os.chdir(VERIF)

NA = {}     # property id -> reason, for properties not claimed

ENGINES = {
    "simsync": ("vlib/sim.py", "deterministic one-loop-iteration driver of the real engine over in-memory mock providers with boundary taps (observation + fault / crash / event-mangling injection) and oracles over observed trees, calls and state"),
    "component": ("props/c09.py props/c13.py props/c16.py props/c18.py props/c19.py", "model-based lock-step harnesses: the real component and a small executable reference model are driven by the same random / exhaustive-small operation sequences; any disagreement is the violation"),
    "threaded": ("vlib/threaded.py", "real threads (cs.start()) under tiny switch intervals and injected yields, with lock-ownership assertions inside the state's mutation hooks"),
}


def main():
    props = sorted(f[:-3] for f in os.listdir("props") if f.startswith("c") and f.endswith(".py") and f[1:-3].isdigit())
    checks, serves = [], {}
    for p in props:
        mod = importlib.import_module("props." + p)
        m = mod.META
        pid = p.upper()
        eng = m.get("engine", "simsync")
        serves.setdefault(eng, []).append(pid)
        c = {
            "property_id": pid,
            "quick_cmd": "./check %s --tier quick" % pid,
            "thorough_cmd": "./check %s --tier thorough" % pid,
            "evidence_file": "evidence/%s.json" % pid,
            "replay_cmd_template": "./check %s --replay {path}" % pid,
            "engine": eng,
            "level_claimed": {"category": m["level"], "text": m["claim"], "design_ref": m.get("design_ref", "DESIGN.md section 3 " + pid)},
            "level_note": m["note"],
            "technique": m["technique"],
        }
        checks.append(c)
    ids = [json.loads(l)["id"] for l in open("properties.jsonl")]
    na = [{"property_id": i, "reason": NA.get(i, "check not built yet in this session (work in progress)")}
          for i in ids if i not in [c["property_id"] for c in checks]]
    man = {
        "version": 1,
        "setup_cmd": "/venv/bin/python -B -m vlib.selftest",
        "hooks": {
            "guard": "CLOUDSYNC_VERIF",
            "enable": "no in-source hooks: every check imports cloudsync from /repo's working tree in a fresh interpreter per shard and wraps providers, storage, resolver, notification handler, class attributes of SyncState and the time module globals from outside (vlib/sim.py, vlib/load.py); CLOUDSYNC_VERIF=1 is set by vlib/load.py and read by nothing in /repo",
            "baseline_off_cmd": "cd /repo && /venv/bin/python -m pytest -ra -q -p no:cacheprovider --timeout=900 --continue-on-collection-errors",
            "source_commits": [],
            "add_only": True,
        },
        "engines": [{"name": k, "path": v[0], "serves_properties": sorted(serves.get(k, [])), "kind_free_text": v[1]}
                    for k, v in ENGINES.items() if serves.get(k)],
        "checks": checks,
        "not_applicable": na,
        "notes": "Runtime monitoring only. exit 0 = held on what was observed (KNOWN-FINDING lines for listed open findings whose probe still fails); exit 1 = VIOLATION line + replay file; exit 2 = inconclusive (monitor saw nothing / watchdog / harness error), never folded into 'held'. Known findings: known_findings.json (open = mechanism-keyed, fixed = suppresses nothing).",
    }
    with open("MANIFEST.json", "w") as f:
        json.dump(man, f, indent=1)
    print("MANIFEST.json:", len(checks), "checks,", len(na), "not_applicable")


if __name__ == "__main__":
    main()
