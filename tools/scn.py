#!/venv/bin/python
"""tools/scn.py FLAVOUR 'L create c; Q; L delete c; Q; L mkdir D; Q; L rendir D c; Q' [--trace] [--log]
Runs one hand-written history on the simulator and prints both trees at the final quiescence (debugging aid)."""
import os
import sys
sys.path.insert(0, os.path.dirname(os.path.dirname(os.path.abspath(__file__))))
from vlib import load as _load          # noqa
_load.load()
from vlib import runner as RN, oracles as O      # noqa


def parse(text):
    sched, n = [], 0
    for part in text.split(";"):
        w = part.split()
        if not w:
            continue
        if w[0] in ("Q", "E0", "E1", "S"):
            sched.append([w[0]])
            continue
        side = "LR".index(w[0])
        op = {"side": side, "op": w[1], "path": w[2], "obj": None}
        if w[1] in ("rename", "rendir"):
            op["to"] = w[3]
        if w[1] in ("create", "write"):
            n += 1
            op["data"] = (w[3] if len(w) > 3 else "%s%d:" % (w[0], n)).encode() + b"." * 10
        sched.append(["U", op])
    return sched


def main():
    flavour, text = sys.argv[1], sys.argv[2]
    mons = [O.Tracer()] if "--trace" in sys.argv else []
    if "--log" in sys.argv:
        import logging

        class H(logging.Handler):
            def emit(self, r):
                if "providers.mock" not in r.name:
                    print("      LOG", r.name, r.getMessage()[:400])
        logging.getLogger("cloudsync").addHandler(H())
        logging.getLogger("cloudsync").setLevel(logging.DEBUG)
    case = {"family": "SCN", "flavour": flavour, "shape": "seq", "base": [], "sched": parse(text), "sim_seed": 1}
    obs, sim = RN.run_case(case, monitors=mons, keep_sim=True)
    print("problems", obs.problems, obs.unhandled[:2], obs.harness_error)
    if obs.trees:
        L, R = obs.trees
        print("L", {k: O.short(v) for k, v in sorted(L.items())})
        print("R", {k: O.short(v) for k, v in sorted(R.items())})
        print("converged" if not O.converged_problems(L, R) else O.converged_problems(L, R))
    print(sim.state.pretty_print(use_sigs=False))
    sim.close()


main()
