#!/bin/sh
# tools/seed_eval.sh NAME WORKTREE OUTDIR CHECK...   -- confirm a seeded change (demo with/without patch) and run checks against it
name=$1; wt=$2; out=$3; shift 3
mkdir -p seeded/$name
# the worktree is reset to HEAD and the delivered patch applied (worktrees of parallel agents share one git stash)
git -C $wt checkout -q -- . && git -C $wt apply $out/patch.diff || { echo "patch does not apply"; exit 3; }
git -C $wt diff > seeded/$name/patch.diff
cp $out/demo.py seeded/$name/demo.py 2>/dev/null
cp $out/meta.json seeded/$name/meta.agent.json 2>/dev/null
echo "== patch: $(grep -c '^[+-][^+-]' seeded/$name/patch.diff) changed lines in $(grep -c '^diff' seeded/$name/patch.diff) file(s)"
/venv/bin/python seeded/$name/demo.py $wt > /tmp/seed_demo_with.txt 2>&1; with=$?
git -C $wt apply -R $PWD/seeded/$name/patch.diff
/venv/bin/python seeded/$name/demo.py $wt > /tmp/seed_demo_without.txt 2>&1; without=$?
git -C $wt apply $PWD/seeded/$name/patch.diff
echo "== demo: with patch exit=$with, without patch exit=$without"
for c in "$@"; do
  o=$(VERIF_REPO=$wt ./check $c 2>&1); rc=$?
  echo "== $c rc=$rc $(echo "$o" | grep -cE '^VIOLATION') violation line(s); $(echo "$o" | grep -E 'violations_total' | tr -s ' ')"
  echo "$o" | grep -E "kind=" | head -2 | cut -c1-260
done
