#!/bin/sh
cd /verif
for d in seeded/*/; do
  n=$(basename $d)
  c=$(/venv/bin/python -c "
import json,sys
m=json.load(open('seeded/$n/meta.json'))
ks=[k for k in m.get('caught_by',{}) if k.startswith('C')]
own=m['property']
print(own if own in ks else (ks[0] if ks else ''))")
  if [ -z "$c" ]; then echo "$n (not caught by design)"; continue; fi
  tools/seed_run.sh $n $c 2>&1 | grep -v "^WARN" | tail -1
done
