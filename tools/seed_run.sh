#!/bin/sh
# tools/seed_run.sh NAME CHECK...  -- apply seeded/NAME/patch.diff to a throw-away worktree of /repo's HEAD, run the
# given checks against it (VERIF_REPO), print one line per check, remove the worktree.  /repo itself is never touched.
name=$1; shift
wt=$(mktemp -d /tmp/seedwt-XXXXXX); rmdir $wt
git -C /repo worktree add -q --detach $wt HEAD || exit 3
if ! git -C $wt apply $PWD/seeded/$name/patch.diff; then echo "$name: patch does not apply to HEAD"; git -C /repo worktree remove --force $wt; exit 3; fi
for c in "$@"; do
  o=$(VERIF_REPO=$wt ./check $c 2>&1); rc=$?
  echo "$name $c rc=$rc $(echo "$o" | grep -cE '^VIOLATION') violation line(s); $(echo "$o" | grep -E 'violations_total' | tr -s ' ')"
done
git -C /repo worktree remove --force $wt; git -C /repo worktree prune
