#!/bin/sh
# tools/sweep.sh TIER SEEDS... -- runs every registered check over the given seeds, prints one line per run
tier=$1; shift
for s in "$@"; do
  for p in $(/venv/bin/python -c "import json;print(' '.join(c['property_id'] for c in json.load(open('MANIFEST.json'))['checks']))"); do
    out=$(VERIF_SEED=$s ./check $p --tier $tier 2>&1); rc=$?
    echo "$p seed=$s rc=$rc $(echo "$out" | grep -E 'wall=' | sed 's/.*evaluations/evaluations/') $(echo "$out" | grep -cE '^KNOWN') known"
    if [ $rc -ne 0 ]; then echo "$out" | grep -E "kind=|VIOLATION|INCONCL" | head -4 | cut -c1-400; fi
  done
done
